package main

import "verif/engine/sym"

var _ = sym.Unsat

const ruleDefault = "one case = one feasible path of a harness (a vector of shape decisions: sizes, operation choices, branch sides) with all data symbolic; distinct = distinct decision vectors (the explorer never revisits one); non-trivial = the path created at least one symbolic input variable and reached at least one assertion, which was then decided for all values of those variables (by term rewriting to a constant or by an SMT query)"

var baseAssumptions = []string{
	"bounded: only the shapes (sizes, counts, operation sequences) enumerated by the harness bounds listed under coverage.harnesses[].bounds are covered; contents are symbolic and decided for all values",
	"engine gosym: own SSA symbolic executor (amd64 layout, little-endian, word size 8); its fidelity is checked by native witness replays on every run, not proved",
	"append growth policy: max(needed, 2*cap) (min 8 for byte slices); map iteration in insertion order",
	"solver: z3 4.8.12 incremental bit-vector queries; `unknown` and `(error` make the check inconclusive, never passing",
}

var props = map[string]*propDef{
	"C14": {
		ID: "C14", Level: "model_checking", Rule: ruleDefault,
		Assumptions: append([]string{
			"the sink is a harness io.Writer that copies what it is given and may fail after a symbolic-free, enumerated byte budget; short writes are reported with an error (io.Writer contract)",
		}, baseAssumptions...),
		Harnesses: []harnessDef{
			{Name: "proto.VerifC14History", Quick: map[string]int{"maxops": 3}, Thorough: map[string]int{"maxops": 4}},
		},
	},
	"C17": {
		ID: "C17", Level: "model_checking", Rule: ruleDefault,
		Assumptions: append([]string{
			"the oracle is the harness' reference encoder (harness/proto/ref.go) written from DESIGN.md Appendix A with its own revision thresholds",
			"OpenTelemetry span contexts are invalid (go.opentelemetry.io stubbed): the trace section is always the single byte 0",
		}, baseAssumptions...),
		Harnesses: []harnessDef{
			{Name: "proto.VerifC17UVarInt"},
			{Name: "proto.VerifC17Fixed", Quick: map[string]int{"maxstr": 2}, Thorough: map[string]int{"maxstr": 3}},
			{Name: "proto.VerifC17Progress"},
			{Name: "proto.VerifC17ClientHello", Quick: map[string]int{"maxstr": 1}, Thorough: map[string]int{"maxstr": 2}},
			{Name: "proto.VerifC17ServerHello", Quick: map[string]int{"maxstr": 1}, Thorough: map[string]int{"maxstr": 2}},
			{Name: "proto.VerifC17Profile"},
			{Name: "proto.VerifC17Exception", Quick: map[string]int{"maxstr": 2}, Thorough: map[string]int{"maxstr": 3}},
			{Name: "proto.VerifC17TableColumns", Quick: map[string]int{"maxstr": 2}, Thorough: map[string]int{"maxstr": 3}},
			{Name: "proto.VerifC17ClientData", Quick: map[string]int{"maxstr": 2}, Thorough: map[string]int{"maxstr": 3}},
			{Name: "proto.VerifC17BlockHeader"},
			{Name: "proto.VerifC17Query", Quick: map[string]int{"maxstr": 1, "maxsettings": 1, "maxparams": 1, "nwide": 2, "maxkey": 0, "obsolete": 0}, Thorough: map[string]int{"maxstr": 2, "maxsettings": 2, "maxparams": 1, "nwide": 8, "maxkey": 0}},
		},
	},
	"C01": {
		ID: "C01", Level: "model_checking", Rule: ruleDefault,
		Assumptions: append([]string{
			"oracle = the values the harness appended (plain Go slices) and the bytes of a second encoding into an empty buffer",
		}, baseAssumptions...),
		Harnesses: []harnessDef{
			{Name: "proto.VerifC01GenLeaves", Quick: map[string]int{"maxrows": 2}, Thorough: map[string]int{"maxrows": 4}},
			{Name: "proto.VerifC01PlainLeaves", Quick: map[string]int{"maxrows": 2, "maxstr": 2}, Thorough: map[string]int{"maxrows": 3, "maxstr": 2}},
			{Name: "proto.VerifC01Composites", Quick: map[string]int{"maxrows": 2, "maxstr": 1, "maxinner": 2}, Thorough: map[string]int{"maxrows": 3, "maxstr": 2, "maxinner": 2}},
			{Name: "proto.VerifC01PlainLeaves", Tags: "verif,purego", Quick: map[string]int{"maxrows": 2, "maxstr": 1}, Thorough: map[string]int{"maxrows": 3, "maxstr": 2}},
			{Name: "proto.VerifC01GenLeaves", Tags: "verif,purego", Quick: map[string]int{"maxrows": 2}, Thorough: map[string]int{"maxrows": 4}},
		},
	},
}
