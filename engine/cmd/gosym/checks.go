package main

import "verif/engine/sym"

var _ = sym.Unsat

const ruleDefault = "one case = one feasible path of a harness (a vector of shape decisions: sizes, operation choices, branch sides) with all data symbolic; distinct = distinct decision vectors (the explorer never revisits one); non-trivial = the path created at least one symbolic input variable and reached at least one assertion, which was then decided for all values of those variables (by term rewriting to a constant or by an SMT query)"

var baseAssumptions = []string{
	"bounded: only the shapes (sizes, counts, operation sequences) enumerated by the harness bounds listed under coverage.harnesses[].bounds are covered; contents are symbolic and decided for all values",
	"engine gosym: own SSA symbolic executor (amd64 layout, little-endian, word size 8); its fidelity is checked by native witness replays on every run, not proved",
	"append growth policy: max(needed, 2*cap) (min 8 for byte slices); map iteration in insertion order",
	"solver: z3 4.8.12 incremental bit-vector queries; `unknown` and `(error` make the check inconclusive, never passing",
}

var mustC07 = []string{"encode-ok", "typed-prefix-rejected", "auto-prefix-rejected"}
var mustC14 = []string{"writeblock-ok", "writeblock-flush-ok", "writeblock==encodeblock", "writecolumn-flush-ok", "writecolumn==encodecolumn"}
var mustC01 = []string{"rows-after-append", "encode-ok", "prefix-untouched", "encode-again-ok", "bytes-independent-of-buffer", "typed-decode-ok", "block-header", "typed-rows", "typed-values", "typed-exhausted", "auto-decode-ok", "auto-shape", "auto-name", "auto-type", "auto-column-kind", "auto-rows", "auto-values", "auto-exhausted"}

var mustC06 = []string{"rows-consistent"}

func c06cfg(c *sym.Config) {
	c.AllocCeiling = 100_000_000 * 512
	c.MaxConcretize = 12
}

func c06cfg6(c *sym.Config) {
	c.AllocCeiling = 100_000_000 * 512
	c.MaxConcretize = 6
}

var mustC16 = []string{"rows==model", "history-encode-ok", "readback-ok", "encoded==model", "reuse-decode-ok", "reuse-decode==fresh-values", "truncated-rejected"}

func intMode(c *sym.Config) { c.IntMode = true }

func c05cfg(c *sym.Config) {
	c.AllocCeiling = 128*1024*1024 + 64
	c.MaxConcretize = 6
}

var mustC08 = []string{"segmented-decode-ok", "segmented-rows", "segmented-values", "segmented-consumed-all", "segmented-truncated-rejected"}

func noReturn(c *sym.Config) {
	c.UnwindLabel = "does-not-return"
	c.MaxSteps = 1_500_000
	c.MaxLoop = 3000
}

func allowLeak(c *sym.Config) { c.AllowLeak = false }

func bigSteps(c *sym.Config) {
	c.MaxSteps = 400_000_000
	c.MaxLoop = 2_000_000
}

var props = map[string]*propDef{
	"C14": {
		ID: "C14", Level: "model_checking", Rule: ruleDefault,
		Assumptions: append([]string{
			"the sink is a harness io.Writer that copies what it is given and may fail after a symbolic-free, enumerated byte budget; short writes are reported with an error (io.Writer contract)",
		}, baseAssumptions...),
		Harnesses: []harnessDef{
			{Name: "proto.VerifC14History", Quick: map[string]int{"maxops": 3}, Thorough: map[string]int{"maxops": 4}},
			{Name: "proto.VerifC14History", Quick: map[string]int{"maxops": 2}, Thorough: map[string]int{"maxops": 3}, Cfg: func(c *sym.Config) { c.GrowExact = true }},
			{Name: "proto.VerifC14LongValues", Cfg: bigSteps},
			{Must: mustC14, Name: "proto.VerifC14GenLeaves", Quick: map[string]int{"maxrows": 2}, Thorough: map[string]int{"maxrows": 3}},
			{Must: mustC14, Name: "proto.VerifC14PlainLeaves", Quick: map[string]int{"maxrows": 2, "maxstr": 1}, Thorough: map[string]int{"maxrows": 3, "maxstr": 2}},
			{Must: mustC14, Name: "proto.VerifC14Composites", Quick: map[string]int{"maxrows": 2, "maxstr": 1, "maxinner": 1}, Thorough: map[string]int{"maxrows": 2, "maxstr": 1, "maxinner": 2}},
		},
	},
	"C17": {
		ID: "C17", Level: "model_checking", Rule: ruleDefault,
		Assumptions: append([]string{
			"the oracle is the harness' reference encoder (harness/proto/ref.go) written from DESIGN.md Appendix A with its own revision thresholds",
			"OpenTelemetry span contexts are invalid (go.opentelemetry.io stubbed): the trace section is always the single byte 0",
		}, baseAssumptions...),
		Harnesses: []harnessDef{
			{Name: "proto.VerifC17Span"},
			{Name: "proto.VerifC17UVarInt"},
			{Name: "proto.VerifC17Fixed", Quick: map[string]int{"maxstr": 2}, Thorough: map[string]int{"maxstr": 3}},
			{Name: "proto.VerifC17Progress"},
			{Name: "proto.VerifC17ClientHello", Quick: map[string]int{"maxstr": 1}, Thorough: map[string]int{"maxstr": 2}},
			{Name: "proto.VerifC17ServerHello", Quick: map[string]int{"maxstr": 1}, Thorough: map[string]int{"maxstr": 2}},
			{Name: "proto.VerifC17Profile"},
			{Name: "proto.VerifC17Exception", Quick: map[string]int{"maxstr": 2}, Thorough: map[string]int{"maxstr": 3}},
			{Name: "proto.VerifC17TableColumns", Quick: map[string]int{"maxstr": 2}, Thorough: map[string]int{"maxstr": 3}},
			{Name: "proto.VerifC17ClientData", Quick: map[string]int{"maxstr": 2}, Thorough: map[string]int{"maxstr": 3}},
			{Name: "proto.VerifC17BlockHeader"},
			{Name: "proto.VerifC17Query", Quick: map[string]int{"maxstr": 1, "maxsettings": 1, "maxparams": 1, "nwide": 2, "maxkey": 0, "obsolete": 0}, Thorough: map[string]int{"maxstr": 2, "maxsettings": 2, "maxparams": 1, "nwide": 8, "maxkey": 0}},
		},
	},
	"C01": {
		ID: "C01", Level: "model_checking", Rule: ruleDefault,
		Assumptions: append([]string{
			"oracle = the values the harness appended (plain Go slices) and the bytes of a second encoding into an empty buffer",
		}, baseAssumptions...),
		Harnesses: []harnessDef{
			{Name: "proto.VerifC01DecimalInfer"},
			{Must: mustC01, Name: "proto.VerifC01GenLeaves", Quick: map[string]int{"maxrows": 2}, Thorough: map[string]int{"maxrows": 4}},
			{Must: mustC01, Name: "proto.VerifC01PlainLeaves", Quick: map[string]int{"maxrows": 2, "maxstr": 2}, Thorough: map[string]int{"maxrows": 3, "maxstr": 2}},
			{Must: mustC01, Name: "proto.VerifC01Composites", Quick: map[string]int{"maxrows": 2, "maxstr": 1, "maxinner": 2}, Thorough: map[string]int{"maxrows": 3, "maxstr": 2, "maxinner": 2}},
			{Must: mustC01, Name: "proto.VerifC01Boundaries", Cfg: bigSteps, Quick: map[string]int{"minrows": 258, "maxrows": 258}, Thorough: map[string]int{"minrows": 258, "maxrows": 258}},
			{Must: mustC01, Name: "proto.VerifC01PlainLeaves", Tags: "verif,purego", Quick: map[string]int{"maxrows": 2, "maxstr": 1}, Thorough: map[string]int{"maxrows": 3, "maxstr": 2}},
			{Must: mustC01, Name: "proto.VerifC01GenLeaves", Tags: "verif,purego", Quick: map[string]int{"maxrows": 2}, Thorough: map[string]int{"maxrows": 4}},
		},
	},
	"C07": {
		ID: "C07", Level: "model_checking", Rule: ruleDefault,
		Assumptions: append([]string{
			"the encodings cut are those produced by the library's own encoders for the shapes of C01/C17 (plain stream; the compressed stream is cut in C05's harness)",
		}, baseAssumptions...),
		Harnesses: []harnessDef{
			{Name: "proto.VerifC07Messages", Quick: map[string]int{"maxstr": 1}, Thorough: map[string]int{"maxstr": 2}},
			{Must: mustC07, Name: "proto.VerifC07GenLeaves", Quick: map[string]int{"maxrows": 1}, Thorough: map[string]int{"maxrows": 2}},
			{Must: mustC07, Name: "proto.VerifC07PlainLeaves", Quick: map[string]int{"maxrows": 2, "maxstr": 1}, Thorough: map[string]int{"maxrows": 2, "maxstr": 2}},
			{Must: mustC07, Name: "proto.VerifC07Composites", Quick: map[string]int{"maxrows": 2, "maxstr": 1, "maxinner": 1}, Thorough: map[string]int{"maxrows": 2, "maxstr": 1, "maxinner": 2}},
		},
	},
	"C15": {
		ID: "C15", Level: "translation_validation", Rule: ruleDefault + "; each case is executed in BOTH SSA programs (tags verif and verif,purego) on the same symbolic inputs and every emitted value (encoded bytes, error class, row count, decoded rows) is asserted equal",
		Assumptions: append([]string{
			"default build modelled as amd64/little-endian (unsafe slice views over byte-addressed memory); ColRawOf exists only in the default build and is outside",
		}, baseAssumptions...),
		Harnesses: []harnessDef{
			// engine self-test: the bit-pattern encoding of IEEE comparisons against the hardware, on witness replays
			{Name: "proto.VerifSelfFloatCmp", Witness: 40},
			{Name: "proto.VerifC15GenLeaves", DualTags: "verif,purego", Quick: map[string]int{"maxrows": 2}, Thorough: map[string]int{"maxrows": 3}, Must: []string{"dual:encoded", "dual:written", "dual:decode-err", "dual:rows"}},
			{Name: "proto.VerifC15BoolUUID", DualTags: "verif,purego", Quick: map[string]int{"maxrows": 2, "minprec": 3, "maxprec": 3}, Thorough: map[string]int{"maxrows": 3, "minprec": 3, "maxprec": 3}, Must: []string{"dual:encoded", "dual:written", "dual:decode-err", "dual:rows", "dual:row"}},
		},
	},
	"C06": {
		ID: "C06", Level: "model_checking", Rule: ruleDefault,
		Assumptions: append([]string{
			"allocation ceiling: a request is a violation when it can exceed maxRowsInBLock (100M) x 512 B = 51.2e9 bytes, the largest by-design column allocation; replays run under an address-space limit so that such a request aborts natively",
			"counts that become shapes are enumerated up to 24 values per site; larger counts are cut as out-of-bound paths (they need more input bytes than the harness provides)",
		}, baseAssumptions...),
		Harnesses: []harnessDef{
			{Name: "proto.VerifC06GenLeaves", Must: mustC06, Cfg: c06cfg, Quick: map[string]int{"maxrows": 2, "inlen": 10}, Thorough: map[string]int{"maxrows": 3, "inlen": 16}},
			{Name: "proto.VerifC06PlainLeaves", Must: mustC06, Cfg: c06cfg, Quick: map[string]int{"maxrows": 2, "inlen": 8}, Thorough: map[string]int{"maxrows": 3, "inlen": 12}},
			// String alone with room for a one-byte row followed by a 9-byte length varint (offset arithmetic at 2^63)
			{Name: "proto.VerifC06PlainLeaves", Must: mustC06, Cfg: c06cfg, Quick: map[string]int{"maxrows": 2, "inlen": 12, "type": 0}, Thorough: map[string]int{"maxrows": 3, "inlen": 14, "type": 0}},
			{Name: "proto.VerifC06Composites", Must: mustC06, Cfg: c06cfg, Quick: map[string]int{"maxrows": 2, "inlen": 10}, Thorough: map[string]int{"maxrows": 2, "inlen": 14}},
			{Name: "proto.VerifC06Composites", Must: mustC06, Cfg: c06cfg6, Quick: map[string]int{"maxrows": 2, "inlen": 18, "type": 1}, Thorough: map[string]int{"maxrows": 2, "inlen": 20, "type": 1}},
			{Name: "proto.VerifC06Composites", Must: mustC06, Cfg: c06cfg6, Quick: map[string]int{"maxrows": 2, "inlen": 24, "type": 0}, Thorough: map[string]int{"maxrows": 2, "inlen": 32, "type": 0}},
			{Name: "proto.VerifC06Composites", Must: mustC06, Cfg: c06cfg6, Quick: map[string]int{"maxrows": 1, "inlen": 42, "type": 9}, Thorough: map[string]int{"maxrows": 2, "inlen": 50, "type": 9}},
			{Name: "proto.VerifC06Composites", Must: mustC06, Cfg: c06cfg6, OnlyTier: "thorough", Thorough: map[string]int{"maxrows": 2, "inlen": 18, "type": 13}},
			{Name: "proto.VerifC06LowCardinalityRaw", Cfg: c06cfg6, Quick: map[string]int{"maxrows": 2, "inlen": 36}, Thorough: map[string]int{"maxrows": 2, "inlen": 38}},
			{Name: "proto.VerifC06Messages", Cfg: c06cfg, Quick: map[string]int{"inlen": 6}, Thorough: map[string]int{"inlen": 9}},
			{Name: "proto.VerifC06HostileTypeName", Cfg: c06cfg, Quick: map[string]int{"maxlen": 3}, Thorough: map[string]int{"maxlen": 5}},
			{Name: "proto.VerifC06RawBlock", Cfg: c06cfg, Quick: map[string]int{"inlen": 8}, Thorough: map[string]int{"inlen": 10}},
		},
	},
	"C16": {
		ID: "C16", Level: "model_checking", Rule: ruleDefault,
		Assumptions: append([]string{
			"oracle: the harness' plain list of model values; the bytes a used column produces are read back by decoding them into a fresh column (the decoder's fidelity for fresh targets is C01's subject)",
			"protocol revision fixed at 54460 for the history harness",
		}, baseAssumptions...),
		Harnesses: []harnessDef{
			{Name: "proto.VerifC16LowCardinalityWidths", Quick: map[string]int{"maxsteps": 3}, Thorough: map[string]int{"maxsteps": 4}},
			{Name: "proto.VerifC16Composites", Must: mustC16, Quick: map[string]int{"maxsteps": 3, "minstr": 1, "maxstr": 1, "mininner": 1, "maxinner": 1}, Thorough: map[string]int{"maxsteps": 3, "minstr": 0, "maxstr": 1, "mininner": 0, "maxinner": 1}},
			{Name: "proto.VerifC16PlainLeaves", Must: mustC16, Quick: map[string]int{"maxsteps": 3, "minstr": 1, "maxstr": 1, "minprec": 3, "maxprec": 3, "minscale": 3, "maxscale": 3}, Thorough: map[string]int{"maxsteps": 3, "minstr": 0, "maxstr": 1}},
			{Name: "proto.VerifC16GenLeaves", Must: mustC16, Quick: map[string]int{"maxsteps": 2}, Thorough: map[string]int{"maxsteps": 3}},
		},
	},
	"C20": {
		ID: "C20", Level: "model_checking", Rule: ruleDefault,
		Assumptions: append([]string{
			"package time is interpreted from its SSA for UTC and FixedZone locations; named zones with DST (tzdata) are outside; time.Time.AddDate is an uninterpreted function of (receiver, years, months, days)",
			"net/netip.AddrFrom4/As4/AddrFrom16/As16 are modelled as the big-endian identity",
		}, baseAssumptions...),
		Harnesses: []harnessDef{
			{Name: "proto.VerifC20Date", Cfg: intMode},
			{Name: "proto.VerifC20Date32", Cfg: intMode},
			{Name: "proto.VerifC20DateTime", Cfg: intMode},
			{Name: "proto.VerifC20DateTime64", Cfg: intMode},
			{Name: "proto.VerifC20Wide"},
			{Name: "proto.VerifC20Interval", Cfg: intMode},
		},
	},
	"C19": {
		ID: "C19", Level: "model_checking", Rule: ruleDefault,
		Assumptions: append([]string{
			"type-string bytes range over 7-bit ASCII (non-ASCII bytes enter Go's unicode tables in strings.TrimSpace/TrimFunc, which are not interpreted)",
			"time.LoadLocation is a nondeterministic stub (error or an opaque non-nil location)",
		}, baseAssumptions...),
		Harnesses: []harnessDef{
			{Name: "proto.VerifC19Relation", Quick: map[string]int{"maxlen": 3}, Thorough: map[string]int{"maxlen": 5}},
			{Name: "proto.VerifC19InferTotal", Quick: map[string]int{"maxlen": 4}, Thorough: map[string]int{"maxlen": 6}},
			{Name: "proto.VerifC19Templates"},
			{Name: "proto.VerifC19RelationVocab", Quick: map[string]int{"maxparam": 1}, Thorough: map[string]int{"maxparam": 1}},
			{Name: "proto.VerifC19RelationVocab", Quick: map[string]int{"maxparam": 2, "samebase": 1}, Thorough: map[string]int{"maxparam": 2, "samebase": 1}},
		},
	},
	"C18": {
		ID: "C18", Level: "model_checking", Rule: ruleDefault,
		Assumptions: append([]string{
			"server blocks are produced by the harness' reference writer for 13 server type strings; 14 target column kinds; the compatible / incompatible / open classification of each (server, target) pair is written out in the harness (vCompat)",
		}, baseAssumptions...),
		Harnesses: []harnessDef{
			{Name: "proto.VerifC18Bind", Quick: map[string]int{"maxcols": 1}, Thorough: map[string]int{"maxcols": 2}, Optional: []string{"compatible-block-rejected"}},
			{Name: "proto.VerifC18Bind", OnlyTier: "quick", Quick: map[string]int{"maxcols": 2, "srvmax": 4, "tgtmax": 4}, Optional: []string{"compatible-block-rejected", "enum-adopted", "precision-adopted"}},
			{Name: "proto.VerifC18Names"},
			{Name: "proto.VerifC18Decimal"},
			{Name: "proto.VerifC18AutoSequence", Optional: []string{"same-schema-rejected"}},
		},
	},
	"C05": {
		ID: "C05", Level: "model_checking", Rule: ruleDefault,
		Assumptions: append([]string{
			"city.CH128 is an uninterpreted function per input length with a no-collision assumption among the applications compared on one path (equal checksums imply equal input)",
			"LZ4/LZ4HC/ZSTD are an opaque codec pair with decompress(compress(x)) = x; compression levels and real bit streams are invisible; bytes no compressor produced may decode to anything or fail",
			"allocation ceiling for this property: the documented 128 MiB frame limits (+ header)",
		}, baseAssumptions...),
		Harnesses: []harnessDef{
			{Name: "compress.VerifC05RoundTrip", NoEarlyStop: true, Quick: map[string]int{"maxlen": 3, "maxread": 3}, Thorough: map[string]int{"maxlen": 6, "maxread": 5}},
			{Name: "compress.VerifC05Header", Cfg: c05cfg, Quick: map[string]int{"tail": 2}, Thorough: map[string]int{"tail": 6}},
			{Name: "compress.VerifC05Corrupt", Quick: map[string]int{"maxlen": 2}, Thorough: map[string]int{"maxlen": 6}},
			{Name: "compress.VerifC05Truncated", Quick: map[string]int{"maxlen": 2}, Thorough: map[string]int{"maxlen": 5}},
			{Name: "ch.VerifC05Client"},
		},
	},
	"C08": {
		ID: "C08", Level: "model_checking", Rule: ruleDefault,
		Assumptions: append([]string{
			"the transport is a harness io.Reader that returns the stream in pieces: one byte per Read, two pieces at every offset, and every one of the 2^(n-1) segmentations of the first 8 bytes",
			"VerifC08Messages: Progress/Profile messages with 1..3-byte varints behind one already-consumed byte, one byte per Read and two pieces at every offset",
			"the single-segment outcome the segmented one is compared with is C01's oracle (the appended values) and C07's (a cut stream fails)",
		}, baseAssumptions...),
		Harnesses: []harnessDef{
			{Name: "proto.VerifC08GenLeaves", Must: mustC08, Quick: map[string]int{"maxrows": 1, "maskbytes": 5, "maxcutback": 0}, Thorough: map[string]int{"maxrows": 2}},
			{Name: "proto.VerifC08PlainLeaves", Must: mustC08, Quick: map[string]int{"maskbytes": 5, "maxcutback": 0, "maxrows": 1, "minstr": 2, "maxstr": 2, "minprec": 3, "maxprec": 3, "minscale": 3, "maxscale": 3}, Thorough: map[string]int{"maxrows": 2, "maxstr": 1}},
			{Name: "proto.VerifC08Composites", Must: mustC08, Quick: map[string]int{"maskbytes": 5, "maxcutback": 0, "maxrows": 1, "minstr": 1, "maxstr": 1, "mininner": 1, "maxinner": 1}, Thorough: map[string]int{"maxrows": 2, "maxstr": 1, "maxinner": 1}},
			{Name: "compress.VerifC08Frames", Quick: map[string]int{"maxlen": 2}, Thorough: map[string]int{"maxlen": 3}},
			// multi-byte varints split at every offset, behind an already-consumed byte of the same segment (seed C08e)
			{Name: "proto.VerifC08Messages", Must: []string{"segmented-lead-byte", "segmented-message-ok", "segmented-message-values", "segmented-message-consumed-all"}},
			{Name: "ch.VerifC08ClientIdle"},
		},
	},
	"C02": {
		ID: "C02", Level: "model_checking", Rule: ruleDefault,
		Assumptions: append([]string{
			"Client.Do is run with its three goroutines as cooperative coroutines (switches only at connection/context/channel operations); the connection is a harness net.Conn that copies written bytes at Write time",
			"oracle: an independent reference encoder of the client side of the protocol (harness/ch/ref.go) with its own revision thresholds; city.CH128 uninterpreted",
			"zap and OpenTelemetry are stubbed (instrumentation off); the client is built in-package without a handshake (handshake: C13)",
		}, baseAssumptions...),
		Harnesses: []harnessDef{
			{Name: "ch.VerifC02Query", Quick: map[string]int{"maxstr": 1}, Thorough: map[string]int{"maxstr": 2}},
			{Name: "ch.VerifC02Insert", Quick: map[string]int{"maxrows": 2}, Thorough: map[string]int{"maxrows": 3}},
			// "then the input blocks in order": streamed input (OnInput) is the C09 harness, run here as well
			{Name: "ch.VerifC09Stream", Quick: map[string]int{"maxrounds": 2}, Thorough: map[string]int{"maxrounds": 2}},
		},
	},
	"C09": {
		ID: "C09", Level: "model_checking", Rule: ruleDefault,
		Assumptions: append([]string{
			"Client.Do with OnInput is run under the cooperative scheduler; the harness connection copies bytes at Write time, so zero-copy aliasing of column memory is observed exactly",
			"the server answers the schema block at once and EndOfStream only after the terminator; when the callback fails it stays silent",
		}, baseAssumptions...),
		Harnesses: []harnessDef{
			{Name: "ch.VerifC09Stream", Quick: map[string]int{"maxrounds": 2}, Thorough: map[string]int{"maxrounds": 3}},
		},
	},
	"C03": {
		ID: "C03", Level: "model_checking", Rule: ruleDefault,
		Assumptions: append([]string{
			"Client.Do is run under the cooperative scheduler against a scripted server stream written by the harness' reference encoder (tied to the library's decoders by C17)",
			"time.Local is UTC (tzdata not read); result blocks uncompressed, and in a second run framed with compression enabled (method None, city.CH128 uninterpreted)",
		}, baseAssumptions...),
		Harnesses: []harnessDef{
			{Name: "ch.VerifC03Script", Quick: map[string]int{"maxpackets": 2, "maxfail": 0, "maxchain": 3}, Thorough: map[string]int{"maxpackets": 3, "maxfail": 1, "maxchain": 4, "cbstyles": 1}},
			// the same scripts over a connection with compression enabled (Data/Totals framed, telemetry blocks not) (seed C03e)
			{Name: "ch.VerifC03Script", Quick: map[string]int{"compressed": 1, "maxpackets": 2, "maxfail": 0, "maxchain": 1, "cbstyles": 1}, Thorough: map[string]int{"compressed": 1, "maxpackets": 2, "maxfail": 0, "maxchain": 1, "cbstyles": 1}},
			{Name: "ch.VerifC03Script", OnlyTier: "thorough", Thorough: map[string]int{"maxpackets": 2, "maxfail": 1, "maxchain": 3}},
			{Name: "ch.VerifC03Script", OnlyTier: "thorough", Thorough: map[string]int{"maxpackets": 2, "maxfail": 0, "symversion": 1}},
		},
	},
	"C13": {
		ID: "C13", Level: "model_checking", Rule: ruleDefault,
		Assumptions: append([]string{
			"Connect/Dial/handshake are run under the cooperative scheduler with a harness connection and dialer; the reference server puts a hello field on the wire iff both the client's and its own revision have it",
			"time.Now is a concrete increasing clock; the hello's arrival instant is compared with the read deadline the client set",
		}, baseAssumptions...),
		Harnesses: []harnessDef{
			{Name: "ch.VerifC13Handshake"},
			{Name: "ch.VerifC13OldServer"},
			{Name: "ch.VerifC13Failure"},
			{Name: "ch.VerifC13Delay"},
		},
	},
	"C04": {
		ID: "C04", Level: "model_checking", Rule: ruleDefault,
		Assumptions: append([]string{
			"Client.Do is run under the cooperative scheduler with three non-preemptive policies (lowest-id first = sender first, highest-id first = receiver first, round robin); a switch happens only at connection, context and channel operations, so orders that need a preemption between two plain statements are outside",
			"a silent server ends in a read-timeout and then EOF (finite read timeout)",
		}, baseAssumptions...),
		Harnesses: []harnessDef{
			{Name: "ch.VerifC04Faults", Repeat: 200, Cfg: noReturn, Quick: map[string]int{"revisions": 1}, Thorough: map[string]int{"revisions": 4}},
		},
	},
	"C10": {
		ID: "C10", Level: "model_checking", Rule: ruleDefault,
		Assumptions: append([]string{
			"the caller's context is a harness type whose cancellation flips at the k-th observation (Err/Done/Deadline call), k enumerated; cancellation can only be observed at those points, so this is cancellation 'at any time' up to non-preemptive schedules",
			"time is the harness' virtual clock: time.Now is a model (+1 ms per call), a blocked Read advances it to the read deadline the client set and then times out, a deadline context (2.5 s or 0.4 s, ReadTimeout 1 s) expires when the clock reaches its deadline or - arbitrary time may pass between two observations - at the k-th observation; promptness = back within 3 s of the cancellation/expiry on that clock; real wall-clock time is outside",
		}, baseAssumptions...),
		Harnesses: []harnessDef{
			{Name: "ch.VerifC10Cancel", Repeat: 200, Cfg: noReturn, Optional: []string{"completed-stream"}, Quick: map[string]int{"maxgate": 10}, Thorough: map[string]int{"maxgate": 24}},
			{Name: "ch.VerifC10Handshake", Repeat: 200, Cfg: noReturn, Optional: []string{"client-returned"}, Quick: map[string]int{"maxgate": 8}, Thorough: map[string]int{"maxgate": 16}},
		},
	},
	"C12": {
		ID: "C12", Level: "model_checking", Rule: ruleDefault,
		Assumptions: append([]string{
			"data races are decided by a happens-before (vector clock) analysis over each explored path: go statements, channel operations, close, select, Mutex/RWMutex, Once, WaitGroup, Pool, sync/atomic and context cancellation are the synchronisation edges; two conflicting accesses by interpreted non-harness code that these edges do not order are a race in every interleaving with the same synchronisation order. Where the model is coarser than the Go memory model it adds edges (it can miss a race, not invent one)",
			"accesses made inside native models (bytealg, errors, fmt, zap, otel except the span context, time) are not tracked; every reported race is replayed natively under the Go race detector and only reported if it confirms; every witness replay also runs under -race and a native report on an engine-clean path makes the check inconclusive",
			"the harness connection is goroutine-safe like a net.Conn (separate read/write locks, atomics for what the server has seen)",
		}, baseAssumptions...),
		Harnesses: []harnessDef{
			{Name: "ch.VerifC12Query", Race: true, Repeat: 50, Cfg: noReturn, Witness: 12, Quick: map[string]int{"policies": 3}, Thorough: map[string]int{"policies": 5}},
			{Name: "chpool.VerifC12Pool", Race: true, Repeat: 50, Cfg: func(c *sym.Config) { noReturn(c); c.AllowLeak = true }, Witness: 3},
		},
	},
	"C11": {
		ID: "C11", Level: "model_checking", Rule: ruleDefault,
		Assumptions: append([]string{
			"chpool AND the real github.com/jackc/puddle/v2 pool (with x/sync/semaphore) are interpreted; goroutines are cooperative coroutines, so only sequential handle histories and puddle's own internal goroutines are explored - concurrent holders on real threads are outside",
			"connections come from a scripted server (hello, then Pongs); time.Now is a concrete clock advancing 1 ms per call; tickers never fire by themselves (the health check is invoked directly)",
		}, baseAssumptions...),
		Harnesses: []harnessDef{
			{Name: "chpool.VerifC11Handles", Cfg: allowLeak},
			{Name: "chpool.VerifC11Expiry", Cfg: allowLeak},
			{Name: "chpool.VerifC11History", Cfg: allowLeak, Quick: map[string]int{"maxsteps": 4}, Thorough: map[string]int{"maxsteps": 5}},
		},
	},
}
