package main

import (
	"encoding/json"
	"flag"
	"fmt"
	"os"
	"os/exec"
	"path/filepath"
	"regexp"
	"sort"
	"strconv"
	"strings"
	"time"

	"verif/engine/sym"
)

// harnessDef describes one harness run of a property check.
type harnessDef struct {
	Name        string         // pkgkey.Func
	Tags        string         // build tags (default "verif")
	Quick       map[string]int // params for the quick tier
	Thorough    map[string]int // params for the thorough tier (nil: same as quick)
	Optional    []string       // labels that need not be reached
	Must        []string       // when set: exactly these labels must be reached (others optional)
	Cfg         func(c *sym.Config)
	MaxPaths    int
	NoReplay    bool // violations cannot be replayed natively (reported as inconclusive)
	Witness     int
	OnlyTier    string
	Repeat      int    // native replays of a schedule-dependent counterexample (with jitter) before giving up
	NoEarlyStop bool   // explore everything even when many paths violate (small harnesses over opaque models, where only some violating members reproduce natively)
	Race        bool   // happens-before race analysis in the engine; native replays are built with -race
	DualTags    string // second program (translation validation): run the harness in both, compare emits
}

type propDef struct {
	ID          string
	Level       string
	Harnesses   []harnessDef
	Assumptions []string
	Rule        string
}

type knownFinding struct {
	Property string `json:"property"`
	Harness  string `json:"harness"`
	Label    string `json:"label"`
	Site     string `json:"site_contains,omitempty"`
	Msg      string `json:"msg_contains,omitempty"`
	What     string `json:"what"`
}

type knownFile struct {
	Findings []knownFinding    `json:"findings"`
	Fixed    []json.RawMessage `json:"fixed"`
}

type harnessEvidence struct {
	Name           string            `json:"name"`
	Tags           string            `json:"tags"`
	Paths          int               `json:"paths"`
	Kinds          map[string]int    `json:"path_outcomes"`
	Queries        int               `json:"queries"`
	SymAsserts     int               `json:"assertion_queries_sent_to_solver"`
	Unknown        int               `json:"unknown"`
	Steps          int64             `json:"ssa_instructions"`
	SolverS        float64           `json:"solver_s"`
	WallS          float64           `json:"wall_s"`
	Asserts        map[string]int    `json:"assertions_checked"`
	Bounds         map[string]string `json:"bounds"`
	WitnessReplays int               `json:"witness_replays_agreed"`
	Funcs          []string          `json:"functions_encoded"`
	Stubs          []string          `json:"stubs_hit"`
	OutOfBound     int               `json:"out_of_bound_paths"`
	NonTrivial     int               `json:"paths_with_symbolic_inputs"`
	Truncated      bool              `json:"truncated,omitempty"`
	Solver         string            `json:"solver"`
}

type checkRun struct {
	verifDir string
	tier     string
	seed     int
	worlds   map[string]*sym.World
	overlay  map[string][]byte
	realOf   map[string]string
	tmp      string
	testBins map[string]string
	known    knownFile
	race     bool // native binaries of the current harness are built with -race
}

func (cr *checkRun) world(tags string) (*sym.World, error) {
	if w, ok := cr.worlds[tags]; ok {
		return w, nil
	}
	w, err := sym.Load(repoDir, tags, cr.overlay, "./...")
	if err != nil {
		return nil, err
	}
	cr.worlds[tags] = w
	return w, nil
}

// testBinary builds (once) the native replay binary for a package and tag set.
func (cr *checkRun) testBinary(pkgKey, tags string, harnessFuncs []string) (string, error) {
	key := pkgKey + "|" + tags
	if cr.race {
		key += "|race"
	}
	if b, ok := cr.testBins[key]; ok {
		return b, nil
	}
	dir := filepath.Join(cr.tmp, "native-"+pkgKey+"-"+strings.ReplaceAll(tags, ",", "_"))
	if cr.race {
		dir += "-race"
	}
	if err := os.MkdirAll(dir, 0o755); err != nil {
		return "", err
	}
	repl := map[string]string{}
	for virt, real := range cr.realOf {
		if strings.HasPrefix(real, "intrinsics:") {
			p := filepath.Join(dir, "intr_"+strings.TrimPrefix(real, "intrinsics:")+".go")
			if err := os.WriteFile(p, cr.overlay[virt], 0o644); err != nil {
				return "", err
			}
			repl[virt] = p
		} else {
			repl[virt] = real
		}
	}
	// replay test file
	var sb strings.Builder
	fmt.Fprintf(&sb, "//go:build verif\n\npackage %s\n\nimport (\n\t\"fmt\"\n\t\"os\"\n\t\"testing\"\n)\n\n", pkgNames[pkgKey])
	sb.WriteString("func TestVerifReplay(t *testing.T) {\n\ttab := map[string]func(){\n")
	for _, f := range harnessFuncs {
		fmt.Fprintf(&sb, "\t\t%q: %s,\n", f, f)
	}
	sb.WriteString("\t}\n\tfn := tab[os.Getenv(\"VERIF_HARNESS\")]\n\tif fn == nil {\n\t\tt.Fatal(\"no such harness\")\n\t}\n")
	sb.WriteString("\tfunc() {\n\t\tdefer func() {\n\t\t\tif r := recover(); r != nil {\n\t\t\t\tfmt.Printf(\"VERIF-PANIC %v\\n\", r)\n\t\t\t}\n\t\t}()\n\t\tfn()\n\t\tfmt.Println(\"VERIF-RETURNED\")\n\t}()\n")
	sb.WriteString("\tfor _, o := range verifObserved {\n\t\tfmt.Println(\"VERIF-OBS\", o)\n\t}\n}\n")
	tf := filepath.Join(dir, "replay_test.go")
	if err := os.WriteFile(tf, []byte(sb.String()), 0o644); err != nil {
		return "", err
	}
	repl[filepath.Join(repoDir, pkgDirs[pkgKey], "zz_verif_replay_test.go")] = tf
	ovj, _ := json.Marshal(map[string]interface{}{"Replace": repl})
	ovp := filepath.Join(dir, "overlay.json")
	if err := os.WriteFile(ovp, ovj, 0o644); err != nil {
		return "", err
	}
	bin := filepath.Join(dir, pkgKey+".test")
	args := []string{"test", "-c", "-tags", tags, "-vet=off", "-overlay", ovp, "-o", bin}
	if cr.race {
		args = append(args, "-race")
	}
	cmd := exec.Command("go", append(args, "./"+pkgDirs[pkgKey])...)
	cmd.Dir = repoDir
	cmd.Env = append(os.Environ(), "GOFLAGS=-mod=mod", "GOPROXY=off", "GOSUMDB=off", "GOTOOLCHAIN=local")
	out, err := cmd.CombinedOutput()
	if err != nil {
		return "", fmt.Errorf("native build failed: %v\n%s", err, out)
	}
	cr.testBins[key] = bin
	return bin, nil
}

// harnessFuncs lists the exported Verif* functions of a harness package directory.
func (cr *checkRun) harnessFuncs(pkgKey string) []string {
	var fs []string
	seen := map[string]bool{}
	for virt, src := range cr.overlay {
		if filepath.Dir(virt) != filepath.Join(repoDir, pkgDirs[pkgKey]) {
			continue
		}
		for _, line := range strings.Split(string(src), "\n") {
			if m := harnessDecl.FindStringSubmatch(line); m != nil {
				name := m[1]
				if !seen[name] {
					seen[name] = true
					fs = append(fs, name)
				}
			}
		}
	}
	sort.Strings(fs)
	return fs
}

// harnessDecl matches `func VerifXxx() {` (no parameters, no results; gofmt may align the brace).
var harnessDecl = regexp.MustCompile(`^func (Verif[A-Za-z0-9_]+)\(\)\s*\{`)

type nativeResult struct {
	out      string
	returned bool
	panicMsg string
	observes []string
	timedOut bool
}

func (cr *checkRun) runNative(pkgKey, tags, fn string, model map[string]uint64, params map[string]int, timeout time.Duration) (*nativeResult, error) {
	bin, err := cr.testBinary(pkgKey, tags, cr.harnessFuncs(pkgKey))
	if err != nil {
		return nil, err
	}
	cex := map[string]interface{}{"values": model, "params": params}
	cj, _ := json.Marshal(cex)
	f, err := os.CreateTemp(cr.tmp, "cex-*.json")
	if err != nil {
		return nil, err
	}
	f.Write(cj)
	f.Close()
	return runNativeBin(bin, filepath.Join(repoDir, pkgDirs[pkgKey]), fn, f.Name(), timeout, cr.race)
}

func runNativeBin(bin, dir, fn, cexPath string, timeout time.Duration, race bool) (*nativeResult, error) {
	// address-space limit: a request beyond the by-design allocation ceiling aborts instead of thrashing
	// (not for -race binaries: the race runtime reserves a large shadow address space)
	cmd := exec.Command("sh", "-c", `ulimit -v 16777216; exec "$0" "$@"`, bin, "-test.run", "^TestVerifReplay$", "-test.v", "-test.timeout", timeout.String())
	if race {
		cmd = exec.Command(bin, "-test.run", "^TestVerifReplay$", "-test.v", "-test.timeout", timeout.String())
	}
	cmd.Dir = dir
	cmd.Env = append(os.Environ(), "VERIF_HARNESS="+fn, "VERIF_CEX="+cexPath, "GOMEMLIMIT=2GiB")
	if race {
		cmd.Env = append(cmd.Env, "GORACE=halt_on_error=0 exitcode=0")
	}
	done := make(chan struct{})
	var out []byte
	go func() { out, _ = cmd.CombinedOutput(); close(done) }()
	res := &nativeResult{}
	select {
	case <-done:
	case <-time.After(timeout + 5*time.Second):
		cmd.Process.Kill()
		<-done
		res.timedOut = true
	}
	res.out = string(out)
	for _, l := range strings.Split(res.out, "\n") {
		switch {
		case strings.Contains(l, "test timed out"):
			res.timedOut = true
		case strings.HasPrefix(l, "VERIF-RETURNED"):
			res.returned = true
		case strings.HasPrefix(l, "VERIF-PANIC "):
			res.panicMsg = strings.TrimPrefix(l, "VERIF-PANIC ")
		case strings.HasPrefix(l, "VERIF-OBS "):
			res.observes = append(res.observes, strings.TrimPrefix(l, "VERIF-OBS "))
		case strings.HasPrefix(l, "panic: ") && res.panicMsg == "":
			res.panicMsg = strings.TrimPrefix(l, "panic: ")
		case strings.HasPrefix(l, "fatal error: ") && res.panicMsg == "":
			res.panicMsg = l
		case strings.Contains(l, "test timed out"):
			res.timedOut = true
		}
	}
	return res, nil
}

// reproduced decides whether the native run shows the violation the engine predicted.
func reproduced(v *sym.Outcome, nr *nativeResult) bool {
	switch v.Label {
	case "panic":
		return nr.panicMsg != "" && !strings.HasPrefix(nr.panicMsg, "VERIF-")
	case "alloc-ceiling":
		return strings.Contains(nr.panicMsg, "out of memory") || strings.Contains(nr.panicMsg, "makeslice") || strings.Contains(nr.panicMsg, "VERIF-ALLOC") || strings.Contains(nr.out, "cannot allocate memory") || strings.Contains(nr.out, "out of memory")
	case "deadlock", "does-not-return":
		return nr.timedOut
	case "goroutine-leak":
		return strings.Contains(nr.out, "VERIF-LEAK")
	case "data-race":
		return raceInLibrary(nr.out)
	}
	// The native run is the ground truth: an assertion of the same harness failing on the real
	// code at the solver's input confirms the violation even when an opaque model (codec bit
	// streams, hash values) made the engine fail at a neighbouring assertion.
	return strings.HasPrefix(nr.panicMsg, "VERIF-ASSERT ")
}

// diverseOrder reorders the violations so that, within each group (same key), members come in an
// order that maximises the number of choices in which each differs from those before it.
func diverseOrder(vs []*sym.Outcome, key func(*sym.Outcome) string) []*sym.Outcome {
	groups := map[string][]*sym.Outcome{}
	var order []string
	for _, v := range vs {
		k := key(v)
		if _, ok := groups[k]; !ok {
			order = append(order, k)
		}
		groups[k] = append(groups[k], v)
	}
	dist := func(a, b *sym.Outcome) int {
		x, y := strings.Fields(a.Choices), strings.Fields(b.Choices)
		d := 0
		for i := 0; i < len(x) || i < len(y); i++ {
			if i >= len(x) || i >= len(y) || x[i] != y[i] {
				d++
			}
		}
		return d
	}
	var out []*sym.Outcome
	for _, k := range order {
		g := groups[k]
		picked := []*sym.Outcome{g[0]}
		rest := append([]*sym.Outcome(nil), g[1:]...)
		for len(rest) > 0 && len(picked) < 8 {
			best, bestD := 0, -1
			for i, c := range rest {
				d := 1 << 30
				for _, p := range picked {
					if x := dist(c, p); x < d {
						d = x
					}
				}
				if d > bestD {
					best, bestD = i, d
				}
			}
			picked = append(picked, rest[best])
			rest = append(rest[:best], rest[best+1:]...)
		}
		out = append(out, picked...)
		out = append(out, rest...)
	}
	return out
}

// raceInLibrary: the Go race detector reported a race in which at least one of the two accesses
// was made by code that is not the harness' own (the top frame of the access is not a zz_verif file).
func raceInLibrary(out string) bool {
	lines := strings.Split(out, "\n")
	for i, l := range lines {
		t := strings.TrimSpace(l)
		if !(strings.HasPrefix(t, "Read at ") || strings.HasPrefix(t, "Write at ") || strings.HasPrefix(t, "Previous read at ") || strings.HasPrefix(t, "Previous write at ")) {
			continue
		}
		// the first "file:line" line after the header is the top frame of this access
		for j := i + 1; j < len(lines) && j < i+4; j++ {
			f := strings.TrimSpace(lines[j])
			if strings.Contains(f, ".go:") {
				if !strings.Contains(f, "zz_verif") {
					return true
				}
				break
			}
		}
	}
	return false
}

func (cr *checkRun) matchKnown(prop, harness string, v *sym.Outcome) *knownFinding {
	for i := range cr.known.Findings {
		k := &cr.known.Findings[i]
		if k.Property != prop || k.Label != v.Label {
			continue
		}
		if k.Harness != "" && k.Harness != harness {
			continue
		}
		if k.Site != "" && !strings.Contains(v.Site, k.Site) {
			continue
		}
		if k.Msg != "" && !strings.Contains(v.Msg, k.Msg) {
			continue
		}
		return k
	}
	return nil
}

func cmdCheck(args []string) {
	fs := flag.NewFlagSet("check", flag.ExitOnError)
	prop := fs.String("prop", "", "property id")
	tier := fs.String("tier", "", "quick|thorough")
	verifDir := fs.String("verif", "/verif", "verif dir")
	only := fs.String("only", "", "run only harnesses whose name contains this")
	workers := fs.Int("workers", 16, "workers")
	replayDir := fs.String("replay", "", "replay a recorded counterexample directory")
	fs.Parse(args)
	if *tier == "" {
		*tier = os.Getenv("VERIF_TIER")
	}
	if *tier == "" {
		*tier = "quick"
	}
	seed, _ := strconv.Atoi(os.Getenv("VERIF_SEED"))
	if *replayDir != "" {
		os.Exit(replayRecorded(*replayDir))
	}
	pd, ok := props[*prop]
	if !ok {
		fmt.Fprintf(os.Stderr, "unknown property %q\n", *prop)
		os.Exit(2)
	}
	code := runCheck(pd, *tier, seed, *verifDir, *only, *workers)
	os.Exit(code)
}

// outDir is where evidence and recorded counterexamples go: the verif dir, unless an experiment
// on a deliberately changed tree (tools/seedall.sh) redirects them with GOSYM_OUT.
func outDir(verifDir string) string {
	if d := os.Getenv("GOSYM_OUT"); d != "" {
		os.MkdirAll(filepath.Join(d, "evidence"), 0o755)
		return d
	}
	return verifDir
}

func runCheck(pd *propDef, tier string, seed int, verifDir, only string, workers int) int {
	start := time.Now()
	tmp, err := os.MkdirTemp("", "gosym-"+pd.ID+"-")
	if err != nil {
		fmt.Fprintln(os.Stderr, err)
		return 2
	}
	defer os.RemoveAll(tmp)
	ov, realOf, err := buildOverlay(verifDir)
	if err != nil {
		fmt.Fprintln(os.Stderr, err)
		return 2
	}
	cr := &checkRun{verifDir: verifDir, tier: tier, seed: seed, worlds: map[string]*sym.World{}, overlay: ov, realOf: realOf, tmp: tmp, testBins: map[string]string{}}
	if raw, err := os.ReadFile(filepath.Join(verifDir, "known_findings.json")); err == nil {
		if err := json.Unmarshal(raw, &cr.known); err != nil {
			fmt.Fprintln(os.Stderr, "known_findings.json:", err)
			return 2
		}
	}
	evidencePath := filepath.Join(outDir(verifDir), "evidence", pd.ID+".json")
	os.Remove(evidencePath)

	crossChecked, crossUnknown := 0, 0
	var hev []harnessEvidence
	var samples []interface{}
	inconclusive := []string{}
	violations := 0
	knownHit := map[string]bool{}
	totalPaths, totalQueries, totalWitness, totalNonTrivial := 0, 0, 0, 0
	var totalSteps int64
	var solverS float64
	funcsAll := map[string]bool{}
	stubsAll := map[string]bool{}
	for _, hd := range pd.Harnesses {
		if only != "" && !strings.Contains(hd.Name, only) {
			continue
		}
		if hd.OnlyTier != "" && hd.OnlyTier != tier {
			continue
		}
		tags := hd.Tags
		if tags == "" {
			tags = "verif"
		}
		w, err := cr.world(tags)
		if err != nil {
			fmt.Fprintln(os.Stderr, "load:", err)
			return 2
		}
		parts := strings.SplitN(hd.Name, ".", 2)
		params := hd.Quick
		if tier == "thorough" && hd.Thorough != nil {
			params = hd.Thorough
		}
		spec := sym.HarnessSpec{Pkg: pkgPaths[parts[0]], Func: parts[1], Workers: workers, MaxPaths: hd.MaxPaths, Witness: 2}
		if hd.Witness > 0 {
			spec.Witness = hd.Witness
		}
		spec.Cfg.InitPkgs = defaultInitPkgs()
		spec.Cfg.Params = params
		if tier == "thorough" {
			spec.Cfg.QueryTimeout = 300000
		}
		if hd.Cfg != nil {
			hd.Cfg(&spec.Cfg)
		}
		spec.Cfg.Race = hd.Race
		if !cr.hasKnownFindings(pd.ID) && !hd.NoEarlyStop {
			spec.StopAfterViolations = 500
		}
		cr.race = hd.Race
		if tier == "thorough" {
			spec.Cfg.CrossCheck = true
		}
		if hd.DualTags != "" {
			w2, err := cr.world(hd.DualTags)
			if err != nil {
				fmt.Fprintln(os.Stderr, "load:", err)
				return 2
			}
			spec.Dual = w2
		}
		rep, err := w.Explore(spec)
		if err != nil {
			fmt.Fprintln(os.Stderr, "explore:", err)
			return 2
		}
		he := harnessEvidence{Name: hd.Name, Tags: tags, Paths: rep.Paths, Kinds: rep.Kinds, Queries: rep.Queries, SymAsserts: rep.SymAsserts,
			Unknown: rep.Unknowns, Steps: rep.Steps, SolverS: rep.SolverS, WallS: rep.WallS, Asserts: rep.Asserts, Bounds: rep.Bounds,
			Funcs: repoFuncs(rep.Funcs), Stubs: rep.Stubs, OutOfBound: rep.Kinds["outside"], NonTrivial: rep.NonTrivial, Truncated: rep.Truncated}
		he.Solver = "z3 4.8.12 (/usr/bin/z3 -in), incremental, bit-vector encoding"
		if spec.Cfg.IntMode {
			he.Solver = "z3 5.1.0 (z3-new -in), incremental, integer-with-wrap encoding"
		}
		fmt.Printf("[%s] %s tags=%s paths=%d %v queries=%d solver=%.1fs wall=%.1fs\n", pd.ID, hd.Name, tags, rep.Paths, rep.Kinds, rep.Queries, rep.SolverS, rep.WallS)
		totalPaths += rep.Paths
		totalQueries += rep.Queries
		totalSteps += rep.Steps
		totalNonTrivial += rep.NonTrivial
		solverS += rep.SolverS
		for _, f := range he.Funcs {
			funcsAll[f] = true
		}
		for _, f := range rep.Stubs {
			stubsAll[f] = true
		}
		// --- cross-solver re-check of sampled assertion queries (thorough tier)
		for _, cq := range rep.Cross {
			others := []string{"z3-new", "cvc5"}
			if spec.Cfg.IntMode {
				others = []string{"cvc5"}
			}
			for _, o := range others {
				v, err := sym.RunScript(o, cq.Script, 120*time.Second)
				crossChecked++
				if err != nil || v == sym.Unknown {
					crossUnknown++
					continue
				}
				if v != cq.Verdict {
					inconclusive = append(inconclusive, fmt.Sprintf("%s: solvers disagree on assertion %s: primary %v, %s %v", hd.Name, cq.Label, cq.Verdict, o, v))
				}
			}
		}
		// --- problems
		if len(rep.SolverErrs) > 0 {
			inconclusive = append(inconclusive, fmt.Sprintf("%s: solver errors: %s", hd.Name, rep.SolverErrs[0]))
		}
		if rep.Truncated {
			inconclusive = append(inconclusive, hd.Name+": exploration truncated (path cap or deadline)")
		}
		seenProblem := map[string]bool{}
		for _, p := range rep.Problems {
			m := firstLine(p.Msg)
			if len(m) > 300 {
				m = m[:300] + "..."
			}
			key := p.Kind + m
			if len(key) > 120 {
				key = key[:120]
			}
			if seenProblem[key] {
				continue
			}
			seenProblem[key] = true
			inconclusive = append(inconclusive, fmt.Sprintf("%s: %s: %s [%s]", hd.Name, p.Kind, m, p.Choices))
		}
		// --- vacuity
		opt := map[string]bool{}
		for _, l := range hd.Optional {
			opt[l] = true
		}
		labels := rep.Labels
		if len(hd.Must) > 0 {
			labels = hd.Must
		}
		for _, l := range labels {
			if rep.Asserts[l] == 0 && !opt[l] && !labelKnown(cr, pd.ID, l) {
				inconclusive = append(inconclusive, fmt.Sprintf("%s: assertion %q was never reached (vacuous)", hd.Name, l))
			}
		}
		if rep.Kinds["ok"] == 0 && len(rep.Violations) == 0 {
			inconclusive = append(inconclusive, hd.Name+": no path completed")
		}
		// --- witness replays
		if !hd.NoReplay {
			for _, wo := range rep.Witnesses {
				nr, err := cr.runNative(parts[0], tags, parts[1], wo.Model, params, 60*time.Second)
				if err != nil {
					inconclusive = append(inconclusive, hd.Name+": native replay: "+oneLine(err.Error()))
					break
				}
				want := []string{}
				for _, o := range wo.Observes {
					want = append(want, o.Label+"="+strings.Join(o.Vals, ","))
				}
				if hd.Race && raceInLibrary(nr.out) {
					inconclusive = append(inconclusive, fmt.Sprintf("%s: the Go race detector reports a race on a path the engine found race-free (choices %s): %s", hd.Name, wo.Choices, tailStr(nr.out, 600)))
				} else if !nr.returned || strings.Join(want, "|") != strings.Join(nr.observes, "|") {
					inconclusive = append(inconclusive, fmt.Sprintf("%s: witness replay disagrees with the engine (choices %s): engine %v native %v panic=%q out=%q", hd.Name, wo.Choices, want, nr.observes, nr.panicMsg, tailStr(nr.out, 300)))
				} else {
					he.WitnessReplays++
					totalWitness++
				}
			}
		}
		// --- violations
		seen := map[string]bool{}
		tries := map[string]int{}
		pendingInconclusive := map[string]string{}
		reported, attempts := 0, 0
		vkey := func(v *sym.Outcome) string {
			if v.Label == "does-not-return" || v.Label == "deadlock" {
				return v.Label
			}
			return v.Label + "|" + v.Site + "|" + firstLine(v.Msg)
		}
		for _, v := range diverseOrder(rep.Violations, vkey) {
			key := vkey(v)
			// several paths may violate the same assertion; a member of the group whose model
			// does not reproduce (e.g. because an abstracted codec happens to agree natively for
			// that value) must not hide the others: try up to 6 members per group, chosen to differ
			// from each other in as many choices as possible
			if seen[key] || tries[key] >= 6 {
				continue
			}
			tries[key]++
			if reported >= 3 || attempts >= 24 {
				// enough to fail the check; the evidence lists the rest
				continue
			}
			attempts++
			if hd.NoReplay {
				inconclusive = append(inconclusive, fmt.Sprintf("%s: violation %s (%s) cannot be replayed natively", hd.Name, v.Label, firstLine(v.Msg)))
				continue
			}
			ntimeout := 60 * time.Second
			if v.Label == "does-not-return" || v.Label == "deadlock" {
				ntimeout = 15 * time.Second
			}
			nr, err := cr.runNative(parts[0], tags, parts[1], v.Model, params, ntimeout)
			if err != nil {
				inconclusive = append(inconclusive, hd.Name+": native replay: "+oneLine(err.Error()))
				continue
			}
			if hd.Repeat > 0 && !reproduced(v, nr) {
				// schedule-dependent: retry with randomised delays at the harness' yield points
				os.Setenv("VERIF_JITTER", "1")
				budget := time.Now().Add(90 * time.Second)
				for i := 0; i < hd.Repeat && !reproduced(v, nr) && time.Now().Before(budget); i++ {
					nr, err = cr.runNative(parts[0], tags, parts[1], v.Model, params, ntimeout)
					if err != nil {
						break
					}
				}
				os.Unsetenv("VERIF_JITTER")
				if err != nil {
					inconclusive = append(inconclusive, hd.Name+": native replay: "+oneLine(err.Error()))
					continue
				}
			}
			if strings.HasPrefix(v.Label, "dual:") {
				nr2, err := cr.runNative(parts[0], hd.DualTags, parts[1], v.Model, params, 60*time.Second)
				if err != nil {
					inconclusive = append(inconclusive, hd.Name+": native replay: "+oneLine(err.Error()))
					continue
				}
				same := strings.Join(nr.observes, "|") == strings.Join(nr2.observes, "|") && nr.panicMsg == nr2.panicMsg && nr.returned == nr2.returned
				if same {
					inconclusive = append(inconclusive, fmt.Sprintf("%s: dual counterexample for %s did not reproduce natively (both builds agree: %v) - encoding or stub error", hd.Name, v.Label, nr.observes))
					continue
				}
				nr.out = "=== " + tags + " ===\n" + nr.out + "\n=== " + hd.DualTags + " ===\n" + nr2.out
			} else if !reproduced(v, nr) {
				pendingInconclusive[key] = fmt.Sprintf("%s: counterexample for %s (%s at %s; choices %s) did not reproduce natively (native: returned=%v panic=%q) - encoding or stub error", hd.Name, v.Label, firstLine(v.Msg), v.Site, v.Choices, nr.returned, nr.panicMsg)
				continue
			}
			seen[key] = true
			delete(pendingInconclusive, key)
			if k := cr.matchKnown(pd.ID, hd.Name, v); k != nil {
				if !knownHit[k.What] {
					knownHit[k.What] = true
					fmt.Printf("KNOWN-FINDING: property=%s %s\n", pd.ID, k.What)
				}
				continue
			}
			violations++
			reported++
			dir := cr.saveReplay(pd.ID, hd, tags, params, v, nr)
			fmt.Printf("VIOLATION property=%s replay=%s\n", pd.ID, dir)
			fmt.Printf("  harness=%s label=%s site=%s msg=%s choices=[%s]\n", hd.Name, v.Label, v.Site, firstLine(v.Msg), v.Choices)
			if strings.HasPrefix(nr.panicMsg, "VERIF-ASSERT ") && nr.panicMsg != "VERIF-ASSERT "+v.Label {
				fmt.Printf("  native replay fails at a different assertion of the same harness: %s\n", strings.TrimPrefix(nr.panicMsg, "VERIF-ASSERT "))
			}
		}
		for _, m := range pendingInconclusive {
			inconclusive = append(inconclusive, m)
		}
		for _, s := range rep.Samples {
			if len(samples) < 12 {
				samples = append(samples, map[string]interface{}{"harness": hd.Name, "choices": s.Choices, "outcome": s.Kind, "assertions": s.Asserts, "decisions": len(s.Decisions), "steps": s.Steps, "ms": s.Ms})
			}
		}
		for _, s := range rep.Violations {
			if len(samples) < 16 {
				samples = append(samples, map[string]interface{}{"harness": hd.Name, "choices": s.Choices, "outcome": "violation", "label": s.Label, "site": s.Site, "msg": firstLine(s.Msg), "model": s.Model})
			}
		}
		hev = append(hev, he)
	}
	if len(hev) == 0 {
		fmt.Fprintln(os.Stderr, "no harness selected")
		return 2
	}
	// --- evidence
	var funcs, stubs []string
	for f := range funcsAll {
		funcs = append(funcs, f)
	}
	sort.Strings(funcs)
	for f := range stubsAll {
		stubs = append(stubs, f)
	}
	sort.Strings(stubs)
	cov := map[string]interface{}{
		"states":                         totalPaths,
		"transitions":                    totalSteps,
		"traces_validated_against_impl":  totalWitness,
		"evaluations":                    totalQueries,
		"distinct_nontrivial":            totalNonTrivial,
		"rule":                           pd.Rule,
		"samples":                        samples,
		"harnesses":                      hev,
		"functions_encoded":              funcs,
		"stubs_hit":                      stubs,
		"solver_s":                       solverS,
		"inconclusive":                   inconclusive,
		"cross_solver_queries_rechecked": crossChecked,
		"cross_solver_unknown":           crossUnknown,
		"solver":                         "see harnesses[].solver (z3 4.8.12 bit-vector encoding; z3 5.1.0 for the integer-with-wrap encoding of C20)",
	}
	if pd.Level == "translation_validation" {
		cov["programs"] = len(hev)
		cov["disagreements_checked"] = totalQueries
	}
	ev := map[string]interface{}{
		"property_id": pd.ID,
		"tier":        tier,
		"seed":        seed,
		"level":       pd.Level,
		"coverage":    cov,
		"assumptions": pd.Assumptions,
		"wall_s":      time.Since(start).Seconds(),
		"violations":  violations,
	}
	ej, _ := json.MarshalIndent(ev, "", " ")
	os.MkdirAll(filepath.Dir(evidencePath), 0o755)
	if err := os.WriteFile(evidencePath, ej, 0o644); err != nil {
		fmt.Fprintln(os.Stderr, err)
		return 2
	}
	if violations > 0 {
		return 1
	}
	if len(inconclusive) > 0 {
		for _, m := range inconclusive {
			fmt.Printf("INCONCLUSIVE property=%s %s\n", pd.ID, m)
		}
		return 2
	}
	fmt.Printf("OK property=%s tier=%s paths=%d queries=%d wall=%.1fs\n", pd.ID, tier, totalPaths, totalQueries, time.Since(start).Seconds())
	return 0
}

func labelKnown(cr *checkRun, prop, label string) bool { return false }

// hasKnownFindings: violating paths are expected on the unchanged tree for this property, so the
// exploration must not stop early on their account.
func (cr *checkRun) hasKnownFindings(prop string) bool {
	for _, k := range cr.known.Findings {
		if k.Property == prop {
			return true
		}
	}
	return false
}

func tailStr(s string, n int) string {
	if len(s) > n {
		return s[len(s)-n:]
	}
	return s
}

func oneLine(s string) string {
	s = strings.ReplaceAll(s, "\n", " | ")
	if len(s) > 600 {
		s = s[:600]
	}
	return s
}

func firstLine(s string) string {
	if i := strings.Index(s, "\n"); i >= 0 {
		return s[:i]
	}
	return s
}

func repoFuncs(fs []string) []string {
	var r []string
	for _, f := range fs {
		if strings.Contains(f, "zz_verif") || strings.Contains(f, ".Verif") || strings.Contains(f, ".verif") || strings.Contains(f, ".v") && strings.Contains(f, "proto.v") {
			continue
		}
		r = append(r, f)
	}
	return r
}

// saveReplay writes a self-contained replay directory for a violation.
func (cr *checkRun) saveReplay(prop string, hd harnessDef, tags string, params map[string]int, v *sym.Outcome, nr *nativeResult) string {
	base := filepath.Join(outDir(cr.verifDir), "replays", prop)
	os.MkdirAll(base, 0o755)
	n := 1
	for {
		if _, err := os.Stat(filepath.Join(base, strconv.Itoa(n))); err != nil {
			break
		}
		n++
	}
	dir := filepath.Join(base, strconv.Itoa(n))
	os.MkdirAll(dir, 0o755)
	cex := map[string]interface{}{
		"property": prop, "harness": hd.Name, "tags": tags, "label": v.Label, "site": v.Site, "msg": v.Msg,
		"values": v.Model, "params": params, "dual_tags": hd.DualTags, "choices": v.Choices, "decisions": v.Decisions,
		"native_output": nr.out,
	}
	cj, _ := json.MarshalIndent(cex, "", " ")
	os.WriteFile(filepath.Join(dir, "cex.json"), cj, 0o644)
	sh := fmt.Sprintf("#!/bin/sh\n# replays the counterexample natively against /repo's current tree\nexec %s/bin/gosym check -replay %s\n", cr.verifDir, dir)
	os.WriteFile(filepath.Join(dir, "run.sh"), []byte(sh), 0o755)
	return dir
}

// replayRecorded re-runs a saved counterexample natively; exit 1 if it still fails.
func replayRecorded(dir string) int {
	raw, err := os.ReadFile(filepath.Join(dir, "cex.json"))
	if err != nil {
		fmt.Fprintln(os.Stderr, err)
		return 2
	}
	var cex struct {
		Property string            `json:"property"`
		Harness  string            `json:"harness"`
		Tags     string            `json:"tags"`
		Label    string            `json:"label"`
		Site     string            `json:"site"`
		Msg      string            `json:"msg"`
		Values   map[string]uint64 `json:"values"`
		Params   map[string]int    `json:"params"`
		DualTags string            `json:"dual_tags"`
	}
	if err := json.Unmarshal(raw, &cex); err != nil {
		fmt.Fprintln(os.Stderr, err)
		return 2
	}
	tmp, _ := os.MkdirTemp("", "gosym-replay-")
	defer os.RemoveAll(tmp)
	ov, realOf, err := buildOverlay("/verif")
	if err != nil {
		fmt.Fprintln(os.Stderr, err)
		return 2
	}
	cr := &checkRun{verifDir: "/verif", worlds: map[string]*sym.World{}, overlay: ov, realOf: realOf, tmp: tmp, testBins: map[string]string{}}
	parts := strings.SplitN(cex.Harness, ".", 2)
	cr.race = cex.Label == "data-race"
	nr, err := cr.runNative(parts[0], cex.Tags, parts[1], cex.Values, cex.Params, 60*time.Second)
	if err != nil {
		fmt.Fprintln(os.Stderr, err)
		return 2
	}
	fmt.Print(nr.out)
	v := &sym.Outcome{Label: cex.Label, Site: cex.Site, Msg: cex.Msg}
	if cex.DualTags != "" {
		nr2, err := cr.runNative(parts[0], cex.DualTags, parts[1], cex.Values, cex.Params, 60*time.Second)
		if err != nil {
			fmt.Fprintln(os.Stderr, err)
			return 2
		}
		fmt.Print(nr2.out)
		if strings.Join(nr.observes, "|") != strings.Join(nr2.observes, "|") || nr.panicMsg != nr2.panicMsg || nr.returned != nr2.returned {
			fmt.Printf("VIOLATION property=%s replay=%s\n", cex.Property, dir)
			return 1
		}
		fmt.Println("not reproduced")
		return 0
	}
	if reproduced(v, nr) {
		fmt.Printf("VIOLATION property=%s replay=%s\n", cex.Property, dir)
		return 1
	}
	fmt.Println("not reproduced")
	return 0
}
