package main

import (
	"encoding/json"
	"flag"
	"fmt"
	"os"
	"path/filepath"
	"runtime/debug"
	"runtime/pprof"
	"strings"

	"verif/engine/sym"
)

// repoDir is /repo for every registered check; GOSYM_REPO redirects background experiments to a snapshot.
var repoDir = func() string {
	if d := os.Getenv("GOSYM_REPO"); d != "" {
		return d
	}
	return "/repo"
}()

var pkgDirs = map[string]string{"proto": "proto", "ch": "", "compress": "compress", "chpool": "chpool"}
var pkgNames = map[string]string{"proto": "proto", "ch": "ch", "compress": "compress", "chpool": "chpool"}
var pkgPaths = map[string]string{
	"proto":    "github.com/ClickHouse/ch-go/proto",
	"ch":       "github.com/ClickHouse/ch-go",
	"compress": "github.com/ClickHouse/ch-go/compress",
	"chpool":   "github.com/ClickHouse/ch-go/chpool",
}

// buildOverlay maps the harness sources into /repo as zz_verif_*.go files.
func buildOverlay(verifDir string) (map[string][]byte, map[string]string, error) {
	ov := map[string][]byte{}
	real := map[string]string{}
	intr, err := os.ReadFile(filepath.Join(verifDir, "harness/common/intrinsics.go"))
	if err != nil {
		return nil, nil, err
	}
	lib, err := os.ReadFile(filepath.Join(verifDir, "harness/common/lib.go"))
	if err != nil {
		return nil, nil, err
	}
	for key, dir := range pkgDirs {
		hd := filepath.Join(verifDir, "harness", key)
		ents, err := os.ReadDir(hd)
		if err != nil {
			continue
		}
		n := 0
		for _, e := range ents {
			if !strings.HasSuffix(e.Name(), ".go") {
				continue
			}
			src, err := os.ReadFile(filepath.Join(hd, e.Name()))
			if err != nil {
				return nil, nil, err
			}
			virt := filepath.Join(repoDir, dir, "zz_verif_"+e.Name())
			ov[virt] = src
			real[virt] = filepath.Join(hd, e.Name())
			n++
		}
		if n > 0 {
			virt := filepath.Join(repoDir, dir, "zz_verif_intrinsics.go")
			ov[virt] = []byte(strings.Replace(string(intr), "package PKGNAME", "package "+pkgNames[key], 1))
			real[virt] = "intrinsics:" + pkgNames[key]
			virt = filepath.Join(repoDir, dir, "zz_verif_lib.go")
			ov[virt] = []byte(strings.Replace(string(lib), "package PKGNAME", "package "+pkgNames[key], 1))
			real[virt] = "intrinsics:lib_" + pkgNames[key]
		}
	}
	return ov, real, nil
}

func main() {
	if os.Getenv("GOGC") == "" {
		debug.SetGCPercent(600)
	}
	if len(os.Args) < 2 {
		fmt.Fprintln(os.Stderr, "usage: gosym run|check ...")
		os.Exit(2)
	}
	switch os.Args[1] {
	case "run":
		cmdRun(os.Args[2:])
	case "check":
		cmdCheck(os.Args[2:])
	default:
		fmt.Fprintln(os.Stderr, "unknown command")
		os.Exit(2)
	}
}

func cmdRun(args []string) {
	fs := flag.NewFlagSet("run", flag.ExitOnError)
	harness := fs.String("harness", "", "pkgkey.Func, e.g. proto.VerifC14History")
	tags := fs.String("tags", "verif", "build tags")
	workers := fs.Int("workers", 16, "workers")
	maxPaths := fs.Int("maxpaths", 0, "path cap")
	trace := fs.Bool("trace", false, "trace instructions")
	verifDir := fs.String("verif", "/verif", "verif dir")
	params := fs.String("params", "", "k=v,k=v")
	growExact := fs.Bool("growexact", false, "append grows exactly")
	ceiling := fs.Int64("ceiling", 0, "alloc ceiling bytes")
	maxconc := fs.Int("maxconc", 0, "max concretised values")
	prof := fs.String("cpuprofile", "", "write cpu profile")
	fs.Parse(args)
	if *prof != "" {
		f, _ := os.Create(*prof)
		pprof.StartCPUProfile(f)
		defer pprof.StopCPUProfile()
	}
	ov, _, err := buildOverlay(*verifDir)
	if err != nil {
		fmt.Fprintln(os.Stderr, err)
		os.Exit(2)
	}
	parts := strings.SplitN(*harness, ".", 2)
	w, err := sym.Load(repoDir, *tags, ov, "./...")
	if err != nil {
		fmt.Fprintln(os.Stderr, err)
		os.Exit(2)
	}
	fmt.Fprintf(os.Stderr, "loaded in %v\n", w.LoadTime)
	spec := sym.HarnessSpec{Pkg: pkgPaths[parts[0]], Func: parts[1], Workers: *workers, MaxPaths: *maxPaths, Witness: 3}
	spec.Cfg.Trace = *trace
	spec.Cfg.GrowExact = *growExact
	spec.Cfg.AllocCeiling = *ceiling
	spec.Cfg.MaxConcretize = *maxconc
	spec.Cfg.InitPkgs = defaultInitPkgs()
	spec.Cfg.Params = parseParams(*params)
	rep, err := w.Explore(spec)
	if err != nil {
		fmt.Fprintln(os.Stderr, err)
		os.Exit(2)
	}
	out, _ := json.MarshalIndent(rep, "", " ")
	fmt.Println(string(out))
}

func parseParams(s string) map[string]int {
	m := map[string]int{}
	for _, kv := range strings.Split(s, ",") {
		if kv == "" {
			continue
		}
		p := strings.SplitN(kv, "=", 2)
		var v int
		fmt.Sscan(p[1], &v)
		m[p[0]] = v
	}
	return m
}

func defaultInitPkgs() map[string]bool {
	return map[string]bool{
		"github.com/ClickHouse/ch-go/proto":            true,
		"github.com/ClickHouse/ch-go":                  true,
		"github.com/ClickHouse/ch-go/compress":         true,
		"github.com/ClickHouse/ch-go/chpool":           true,
		"github.com/ClickHouse/ch-go/otelch":           true,
		"github.com/ClickHouse/ch-go/internal/version": true,
		"strings":                    true,
		"strconv":                    true,
		"time":                       true,
		"github.com/jackc/puddle/v2": true,
	}
}
