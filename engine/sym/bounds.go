package sym

import "math"

// A light interval domain over terms, fed by the path condition. It only ever
// answers "definitely true/false"; everything else goes to the solver.

type ival struct {
	smin, smax int64
	umin, umax uint64
}

func fullIval(w int) *ival {
	if w >= 64 {
		return &ival{smin: math.MinInt64, smax: math.MaxInt64, umin: 0, umax: math.MaxUint64}
	}
	return &ival{smin: -(int64(1) << uint(w-1)), smax: int64(1)<<uint(w-1) - 1, umin: 0, umax: mask(w)}
}

func (in *Interp) ivalOf(t *Term) *ival {
	if t.IsConst() {
		return &ival{smin: sx(t.Val, t.W), smax: sx(t.Val, t.W), umin: t.Val, umax: t.Val}
	}
	if iv, ok := in.bounds[t]; ok {
		return iv
	}
	iv := fullIval(t.W)
	// structural knowledge: zero-extended values
	if t.Op == OConcat && t.Args[0].IsConst() && t.Args[0].Val == 0 {
		lw := t.W - t.Args[0].W
		if lw < 63 {
			iv.umax = mask(lw)
			iv.smin, iv.smax = 0, int64(mask(lw))
		}
	}
	if t.Op == OExtract && t.Val == 0 {
		if a, ok := in.bounds[t.Args[0]]; ok && a.umax <= mask(t.W) {
			iv.umin, iv.umax = a.umin, a.umax
			if a.umax <= mask(t.W-1) {
				iv.smin, iv.smax = int64(a.umin), int64(a.umax)
			}
		}
	}
	return iv
}

func (in *Interp) setIval(t *Term, iv *ival) {
	if t.IsConst() {
		return
	}
	// reconcile signed and unsigned views when the sign is known
	if iv.smin >= 0 {
		if uint64(iv.smin) > iv.umin {
			iv.umin = uint64(iv.smin)
		}
		if uint64(iv.smax) < iv.umax {
			iv.umax = uint64(iv.smax)
		}
	}
	if t.W == 64 && iv.umax <= math.MaxInt64 {
		if int64(iv.umin) > iv.smin {
			iv.smin = int64(iv.umin)
		}
		if int64(iv.umax) < iv.smax {
			iv.smax = int64(iv.umax)
		}
	}
	in.bounds[t] = iv
}

// learn records what an asserted atom says about its operands.
func (in *Interp) learn(t *Term, pos bool) {
	switch t.Op {
	case OBNot:
		in.learn(t.Args[0], !pos)
	case OBAnd:
		if pos {
			in.learn(t.Args[0], true)
			in.learn(t.Args[1], true)
		}
	case OBOr:
		if !pos {
			in.learn(t.Args[0], false)
			in.learn(t.Args[1], false)
		}
	case OSlt:
		a, b := t.Args[0], t.Args[1]
		if b.IsConst() {
			c := sx(b.Val, b.W)
			iv := *in.ivalOf(a)
			if pos { // a < c
				if c-1 < iv.smax && c != math.MinInt64 {
					iv.smax = c - 1
				}
			} else { // a >= c
				if c > iv.smin {
					iv.smin = c
				}
			}
			in.setIval(a, &iv)
		} else if a.IsConst() {
			c := sx(a.Val, a.W)
			iv := *in.ivalOf(b)
			if pos { // c < b
				if c+1 > iv.smin && c != math.MaxInt64 {
					iv.smin = c + 1
				}
			} else { // b <= c
				if c < iv.smax {
					iv.smax = c
				}
			}
			in.setIval(b, &iv)
		}
	case OUlt:
		a, b := t.Args[0], t.Args[1]
		if b.IsConst() {
			c := b.Val
			iv := *in.ivalOf(a)
			if pos {
				if c != 0 && c-1 < iv.umax {
					iv.umax = c - 1
				}
			} else {
				if c > iv.umin {
					iv.umin = c
				}
			}
			in.setIval(a, &iv)
		} else if a.IsConst() {
			c := a.Val
			iv := *in.ivalOf(b)
			if pos {
				if c != math.MaxUint64 && c+1 > iv.umin {
					iv.umin = c + 1
				}
			} else {
				if c < iv.umax {
					iv.umax = c
				}
			}
			in.setIval(b, &iv)
		}
	case OEq:
		a, b := t.Args[0], t.Args[1]
		if a.W == 0 {
			return
		}
		if pos && b.IsConst() {
			in.setIval(a, &ival{smin: sx(b.Val, b.W), smax: sx(b.Val, b.W), umin: b.Val, umax: b.Val})
		}
	}
}

// quick decides an atom from the interval domain: +1 true, -1 false, 0 unknown.
func (in *Interp) quick(t *Term) int {
	switch t.Op {
	case OConst:
		if t.Val != 0 {
			return 1
		}
		return -1
	case OBNot:
		return -in.quick(t.Args[0])
	case OBAnd:
		x, y := in.quick(t.Args[0]), in.quick(t.Args[1])
		if x == -1 || y == -1 {
			return -1
		}
		if x == 1 && y == 1 {
			return 1
		}
	case OBOr:
		x, y := in.quick(t.Args[0]), in.quick(t.Args[1])
		if x == 1 || y == 1 {
			return 1
		}
		if x == -1 && y == -1 {
			return -1
		}
	case OSlt:
		a, b := in.ivalOf(t.Args[0]), in.ivalOf(t.Args[1])
		if a.smax < b.smin {
			return 1
		}
		if a.smin >= b.smax {
			return -1
		}
	case OUlt:
		a, b := in.ivalOf(t.Args[0]), in.ivalOf(t.Args[1])
		if a.umax < b.umin {
			return 1
		}
		if a.umin >= b.umax {
			return -1
		}
	case OEq:
		if t.Args[0].W == 0 {
			return 0
		}
		a, b := in.ivalOf(t.Args[0]), in.ivalOf(t.Args[1])
		if a.umax < b.umin || b.umax < a.umin || a.smax < b.smin || b.smax < a.smin {
			return -1
		}
		if a.umin == a.umax && b.umin == b.umax && a.umin == b.umin {
			return 1
		}
	}
	return 0
}
