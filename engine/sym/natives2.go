package sym

import (
	"fmt"
	"go/types"
	"strings"

	"golang.org/x/tools/go/ssa"
)

const gfErrors = "github.com/go-faster/errors"

// mkStructPtr allocates a struct of the named type and stores the given field values.
func (in *Interp) mkStructPtr(t types.Type, fields map[int]Value) (types.Type, PtrV) {
	c := in.newCell(t)
	su := t.Underlying().(*types.Struct)
	for i, v := range fields {
		in.store(PtrV{C: c.Kids[i]}, su.Field(i).Type(), v)
	}
	return types.NewPointer(t), PtrV{C: c}
}

func (in *Interp) newErrorString(pkg string, msg StrV) Value {
	t, p := in.mkStructPtr(in.world.namedType(pkg, "errorString"), map[int]Value{0: msg})
	return IfaceV{T: t, V: p}
}

func (in *Interp) newWrapError(pkg string, msg StrV, cause Value) Value {
	t, p := in.mkStructPtr(in.world.namedType(pkg, "wrapError"), map[int]Value{0: msg, 1: cause})
	return IfaceV{T: t, V: p}
}

// goValue converts an interface-boxed value to a Go value for formatting; ok is
// false when it is symbolic.
func (in *Interp) goValue(v Value) (interface{}, bool) {
	switch x := v.(type) {
	case IfaceV:
		if x.T == nil {
			return nil, true
		}
		switch u := x.T.Underlying().(type) {
		case *types.Basic:
			switch {
			case u.Info()&types.IsString != 0:
				s, ok := concStr(x.V.(StrV))
				return s, ok
			case u.Info()&types.IsBoolean != 0:
				t := x.V.(*Term)
				return t.Val != 0, t.IsConst()
			case u.Info()&types.IsInteger != 0:
				t := x.V.(*Term)
				if !t.IsConst() {
					return nil, false
				}
				if u.Info()&types.IsUnsigned != 0 {
					return t.Val, true
				}
				return sx(t.Val, t.W), true
			case u.Info()&types.IsFloat != 0:
				t := x.V.(*Term)
				if !t.IsConst() {
					return nil, false
				}
				return in.floatVal(t), true
			}
		}
		// Stringer / error: call the method when available
		if m := in.findMethod(x.T, "Error"); m != nil && in.implementsError(x.T) {
			r := in.callFn(in.cur, m, []Value{x.V}, nil)
			s, ok := concStr(r.(StrV))
			return errString(s), ok
		}
		if m := in.findMethod(x.T, "String"); m != nil && m.Signature.Params().Len() == 0 && m.Signature.Results().Len() == 1 && isString(m.Signature.Results().At(0).Type()) {
			r := in.callFn(in.cur, m, []Value{x.V}, nil)
			s, ok := concStr(r.(StrV))
			return errString(s), ok
		}
		return fmt.Sprintf("<%s>", x.T.String()), true
	}
	return nil, false
}

type errString string

func (e errString) Error() string  { return string(e) }
func (e errString) String() string { return string(e) }

func (in *Interp) implementsError(t types.Type) bool {
	return types.Implements(t, errorType.Underlying().(*types.Interface))
}

// sprintf formats natively when all arguments are concrete; otherwise the result is a placeholder.
func (in *Interp) sprintf(format string, args SliceV) StrV {
	var goArgs []interface{}
	all := true
	for i := 0; i < args.Len; i++ {
		v := in.load(PtrV{C: args.C.Kids[args.Off+i]}, emptyIface)
		g, ok := in.goValue(v)
		if !ok {
			all = false
			g = "<sym>"
		}
		goArgs = append(goArgs, g)
	}
	_ = all
	f := strings.ReplaceAll(format, "%w", "%v")
	return in.strConst(fmt.Sprintf(f, goArgs...))
}

var emptyIface = types.NewInterfaceType(nil, nil)

func (in *Interp) variadicArgs(v Value) []Value {
	s := v.(SliceV)
	var r []Value
	for i := 0; i < s.Len; i++ {
		r = append(r, in.load(PtrV{C: s.C.Kids[s.Off+i]}, emptyIface))
	}
	return r
}

// errorf implements fmt.Errorf / go-faster errors.Errorf.
func (in *Interp) errorf(pkgNoWrap, pkgWrap string, a []Value) Value {
	format := in.mustConcStr(a[0], "Errorf format")
	args := a[1].(SliceV)
	msg := in.sprintf(format, args)
	if strings.Contains(format, "%w") {
		// cause = the argument matching %w: take the last error-typed argument
		var cause Value = IfaceV{}
		for _, v := range in.variadicArgs(args) {
			iv := v.(IfaceV)
			if iv.T != nil && in.implementsError(iv.T) {
				cause = iv
			}
		}
		return in.newWrapError(pkgWrap, msg, cause)
	}
	return in.newErrorString(pkgNoWrap, msg)
}

// unwrapOnce returns the causes of err (nil if none).
func (in *Interp) unwrapOnce(err IfaceV) []IfaceV {
	if err.T == nil {
		return nil
	}
	m := in.findMethod(err.T, "Unwrap")
	if m == nil {
		return nil
	}
	res := m.Signature.Results()
	if m.Signature.Params().Len() != 0 || res.Len() != 1 {
		return nil
	}
	r := in.callFn(in.cur, m, []Value{err.V}, nil)
	switch x := r.(type) {
	case IfaceV:
		if x.T == nil {
			return nil
		}
		return []IfaceV{x}
	case SliceV:
		var out []IfaceV
		for i := 0; i < x.Len; i++ {
			e := in.load(PtrV{C: x.C.Kids[x.Off+i]}, errorType).(IfaceV)
			if e.T != nil {
				out = append(out, e)
			}
		}
		return out
	}
	return nil
}

func (in *Interp) errorsIs(err, target IfaceV) bool {
	if err.T == nil || target.T == nil {
		return err.T == nil && target.T == nil
	}
	comparable := types.Comparable(target.T)
	for {
		if comparable && types.Identical(err.T, target.T) {
			if in.branch(in.equal(err.T, err.V, target.V)) {
				return true
			}
		}
		if m := in.findMethod(err.T, "Is"); m != nil && m.Signature.Params().Len() == 1 && m.Signature.Results().Len() == 1 {
			if r, ok := in.callFn(in.cur, m, []Value{err.V, target}, nil).(*Term); ok && r.W == 0 {
				if in.branch(r) {
					return true
				}
			}
		}
		next := in.unwrapOnce(err)
		switch len(next) {
		case 0:
			return false
		case 1:
			err = next[0]
		default:
			for _, e := range next {
				if in.errorsIs(e, target) {
					return true
				}
			}
			return false
		}
	}
}

func (in *Interp) errorsAs(err IfaceV, target IfaceV) bool {
	if target.T == nil {
		panic(goPanic{msg: "errors: target cannot be nil", site: in.site()})
	}
	pt, ok := target.T.Underlying().(*types.Pointer)
	if !ok {
		panic(goPanic{msg: "errors: target must be a non-nil pointer", site: in.site()})
	}
	tt := pt.Elem()
	tp := target.V.(PtrV)
	for err.T != nil {
		if it, isI := tt.Underlying().(*types.Interface); isI {
			if types.Implements(err.T, it) {
				in.store(tp, tt, err)
				return true
			}
		} else if types.Identical(err.T, tt) {
			in.store(tp, tt, err.V)
			return true
		}
		if m := in.findMethod(err.T, "As"); m != nil && m.Signature.Params().Len() == 1 {
			if r, ok := in.callFn(in.cur, m, []Value{err.V, target}, nil).(*Term); ok && r.W == 0 {
				if in.branch(r) {
					return true
				}
			}
		}
		next := in.unwrapOnce(err)
		switch len(next) {
		case 0:
			return false
		case 1:
			err = next[0]
		default:
			for _, e := range next {
				if in.errorsAs(e, target) {
					return true
				}
			}
			return false
		}
	}
	return false
}

// errorText renders err.Error() by calling the (possibly native) method.
func (in *Interp) errorText(err IfaceV) StrV {
	if err.T == nil {
		return in.strConst("<nil>")
	}
	m := in.findMethod(err.T, "Error")
	if m == nil {
		return in.strConst("<" + err.T.String() + ">")
	}
	return in.callFn(in.cur, m, []Value{err.V}, nil).(StrV)
}

func init() {
	n := nativeTable
	// ----- go-faster/errors and std errors
	n[gfErrors+".New"] = func(in *Interp, fr *frame, a []Value) Value {
		return in.newErrorString(gfErrors, a[0].(StrV))
	}
	n["errors.New"] = func(in *Interp, fr *frame, a []Value) Value {
		return in.newErrorString("errors", a[0].(StrV))
	}
	n[gfErrors+".Wrap"] = func(in *Interp, fr *frame, a []Value) Value {
		return in.newWrapError(gfErrors, a[1].(StrV), a[0])
	}
	n[gfErrors+".Wrapf"] = func(in *Interp, fr *frame, a []Value) Value {
		return in.newWrapError(gfErrors, in.sprintf(in.mustConcStr(a[1], "format"), a[2].(SliceV)), a[0])
	}
	n[gfErrors+".Errorf"] = func(in *Interp, fr *frame, a []Value) Value {
		return in.errorf(gfErrors, gfErrors, a)
	}
	n["fmt.Errorf"] = func(in *Interp, fr *frame, a []Value) Value {
		return in.errorf("errors", "fmt", a)
	}
	n["(*"+gfErrors+".wrapError).Error"] = func(in *Interp, fr *frame, a []Value) Value {
		p := a[0].(PtrV)
		msg := in.load(PtrV{C: p.C.Kids[0]}, types.Typ[types.String]).(StrV)
		cause := in.load(PtrV{C: p.C.Kids[1]}, errorType).(IfaceV)
		if cause.T == nil {
			return msg
		}
		ct := in.errorText(cause)
		r := append(append(append([]*Term{}, msg.B...), in.strConst(": ").B...), ct.B...)
		return StrV{B: r}
	}
	n["(*fmt.wrapError).Error"] = func(in *Interp, fr *frame, a []Value) Value {
		p := a[0].(PtrV)
		return in.load(PtrV{C: p.C.Kids[0]}, types.Typ[types.String])
	}
	is := func(in *Interp, fr *frame, a []Value) Value {
		return in.st.Bool(in.errorsIs(a[0].(IfaceV), a[1].(IfaceV)))
	}
	n["errors.Is"] = is
	n[gfErrors+".Is"] = is
	as := func(in *Interp, fr *frame, a []Value) Value {
		return in.st.Bool(in.errorsAs(a[0].(IfaceV), a[1].(IfaceV)))
	}
	n["errors.As"] = as
	n[gfErrors+".As"] = as
	unwrap := func(in *Interp, fr *frame, a []Value) Value {
		e := a[0].(IfaceV)
		if e.T == nil {
			return IfaceV{}
		}
		m := in.findMethod(e.T, "Unwrap")
		if m == nil || m.Signature.Results().Len() != 1 || !types.Identical(m.Signature.Results().At(0).Type(), errorType) {
			return IfaceV{}
		}
		return in.callFn(in.cur, m, []Value{e.V}, nil)
	}
	n["errors.Unwrap"] = unwrap
	n[gfErrors+".Unwrap"] = unwrap
	n[gfErrors+".Trace"] = func(in *Interp, fr *frame, a []Value) Value { return in.st.False }

	// ----- fmt
	n["fmt.Sprintf"] = func(in *Interp, fr *frame, a []Value) Value {
		return in.sprintf(in.mustConcStr(a[0], "format"), a[1].(SliceV))
	}
	n["fmt.Sprint"] = func(in *Interp, fr *frame, a []Value) Value {
		args := a[0].(SliceV)
		return in.sprintf(strings.Repeat("%v", args.Len), args)
	}

	// ----- internal/bytealg
	n["internal/bytealg.IndexByte"] = func(in *Interp, fr *frame, a []Value) Value {
		return in.indexByte(in.sliceBytes(a[0].(SliceV), 1), a[1].(*Term))
	}
	n["internal/bytealg.IndexByteString"] = func(in *Interp, fr *frame, a []Value) Value {
		return in.indexByte(a[0].(StrV).B, a[1].(*Term))
	}
	n["internal/bytealg.CountString"] = func(in *Interp, fr *frame, a []Value) Value {
		return in.countByte(a[0].(StrV).B, a[1].(*Term))
	}
	n["internal/bytealg.Count"] = func(in *Interp, fr *frame, a []Value) Value {
		return in.countByte(in.sliceBytes(a[0].(SliceV), 1), a[1].(*Term))
	}
	n["internal/bytealg.Equal"] = func(in *Interp, fr *frame, a []Value) Value {
		x, y := in.sliceBytes(a[0].(SliceV), 1), in.sliceBytes(a[1].(SliceV), 1)
		return in.strEq(StrV{x}, StrV{y})
	}
	n["internal/bytealg.MakeNoZero"] = func(in *Interp, fr *frame, a []Value) Value {
		k := int(in.mustConst(a[0].(*Term), "MakeNoZero"))
		return SliceV{C: in.newFlatCell(types.NewArray(types.Typ[types.Byte], int64(k)), k), Len: k, Cap: k}
	}
	n["internal/bytealg.IndexString"] = func(in *Interp, fr *frame, a []Value) Value {
		return in.indexString(a[0].(StrV).B, a[1].(StrV).B)
	}
	n["internal/bytealg.Index"] = func(in *Interp, fr *frame, a []Value) Value {
		return in.indexString(in.sliceBytes(a[0].(SliceV), 1), in.sliceBytes(a[1].(SliceV), 1))
	}
	n["internal/bytealg.Compare"] = func(in *Interp, fr *frame, a []Value) Value {
		x, y := StrV{in.sliceBytes(a[0].(SliceV), 1)}, StrV{in.sliceBytes(a[1].(SliceV), 1)}
		st := in.st
		return st.Ite(in.strLess(x, y), st.Const(^uint64(0), 64), st.Ite(in.strEq(x, y), st.Const(0, 64), st.Const(1, 64)))
	}
	n["internal/stringslite.Index"] = nil
	delete(n, "internal/stringslite.Index")

	// ----- sync (cooperative, single running coroutine)
	// the cooperative scheduler never preempts inside a critical section, so locking only matters
	// to the happens-before analysis (race.go): unlock releases, lock acquires
	// Mutual exclusion is real: a goroutine that reaches Lock while another one is inside the
	// critical section (it yielded there, e.g. at a close or a connection call) waits for Unlock.
	type muState struct{ writer, readers int }
	mu := func(in *Interp, v Value) *muState {
		k := cellKey("mutex", v)
		m, _ := in.ext2[k].(*muState)
		if m == nil {
			m = &muState{}
			in.ext2[k] = m
		}
		return m
	}
	n["(*sync.Mutex).Lock"] = func(in *Interp, fr *frame, a []Value) Value {
		m := mu(in, a[0])
		if m.writer != 0 || m.readers != 0 {
			in.yieldUntil(func() bool { return m.writer == 0 && m.readers == 0 })
		}
		m.writer = in.co.current.id + 1
		in.raceAcquire(cellKey("mutex", a[0]))
		return nil
	}
	n["(*sync.RWMutex).Lock"] = n["(*sync.Mutex).Lock"]
	n["(*sync.RWMutex).RLock"] = func(in *Interp, fr *frame, a []Value) Value {
		m := mu(in, a[0])
		if m.writer != 0 {
			in.yieldUntil(func() bool { return m.writer == 0 })
		}
		m.readers++
		in.raceAcquire(cellKey("mutex", a[0]))
		return nil
	}
	n["(*sync.Mutex).Unlock"] = func(in *Interp, fr *frame, a []Value) Value {
		mu(in, a[0]).writer = 0
		in.raceRelease(cellKey("mutex", a[0]))
		return nil
	}
	n["(*sync.RWMutex).Unlock"] = n["(*sync.Mutex).Unlock"]
	n["(*sync.RWMutex).RUnlock"] = func(in *Interp, fr *frame, a []Value) Value {
		if m := mu(in, a[0]); m.readers > 0 {
			m.readers--
		}
		in.raceRelease(cellKey("mutex", a[0]))
		return nil
	}
	n["(*sync.Mutex).TryLock"] = func(in *Interp, fr *frame, a []Value) Value {
		m := mu(in, a[0])
		if m.writer != 0 || m.readers != 0 {
			return in.st.False
		}
		m.writer = in.co.current.id + 1
		in.raceAcquire(cellKey("mutex", a[0]))
		return in.st.True
	}
	n["(*sync.Once).Do"] = func(in *Interp, fr *frame, a []Value) Value {
		p := a[0].(PtrV)
		key := fmt.Sprintf("once:%d", p.C.ID)
		if in.ext[key] == nil {
			in.ext[key] = true
			in.callValue(fr, a[1], nil, nil)
			in.raceRelease(cellKey("once", a[0]))
		}
		in.raceAcquire(cellKey("once", a[0]))
		return nil
	}
	n["(*sync.WaitGroup).Add"] = func(in *Interp, fr *frame, a []Value) Value {
		p := a[0].(PtrV)
		key := fmt.Sprintf("wg:%d", p.C.ID)
		cnt, _ := in.ext[key].(int64)
		cnt += in.mustConst(a[1].(*Term), "WaitGroup.Add delta")
		in.ext[key] = cnt
		return nil
	}
	n["(*sync.WaitGroup).Done"] = func(in *Interp, fr *frame, a []Value) Value {
		p := a[0].(PtrV)
		key := fmt.Sprintf("wg:%d", p.C.ID)
		cnt, _ := in.ext[key].(int64)
		in.ext[key] = cnt - 1
		in.raceRelease(cellKey("wg", a[0]))
		return nil
	}
	n["(*sync.WaitGroup).Wait"] = func(in *Interp, fr *frame, a []Value) Value {
		p := a[0].(PtrV)
		key := fmt.Sprintf("wg:%d", p.C.ID)
		in.yieldUntil(func() bool { c, _ := in.ext[key].(int64); return c <= 0 })
		in.raceAcquire(cellKey("wg", a[0]))
		return nil
	}
	n["(*sync.Pool).Get"] = func(in *Interp, fr *frame, a []Value) Value {
		in.raceAcquire(cellKey("pool", a[0]))
		p := a[0].(PtrV)
		su := p.C.T.Underlying().(*types.Struct)
		for i := 0; i < su.NumFields(); i++ {
			if su.Field(i).Name() == "New" {
				f := in.load(PtrV{C: p.C.Kids[i]}, su.Field(i).Type()).(*FuncV)
				if f != nil {
					return in.callValue(fr, f, nil, nil)
				}
			}
		}
		return IfaceV{}
	}
	n["(*sync.Pool).Put"] = func(in *Interp, fr *frame, a []Value) Value { in.raceRelease(cellKey("pool", a[0])); return nil }

	// ----- sync/atomic
	for _, ty := range []struct {
		n string
		t types.Type
	}{{"Int32", types.Typ[types.Int32]}, {"Int64", types.Typ[types.Int64]}, {"Uint32", types.Typ[types.Uint32]}, {"Uint64", types.Typ[types.Uint64]}, {"Uintptr", types.Typ[types.Uintptr]}} {
		t := ty.t
		// atomics synchronise: a load acquires what earlier stores and read-modify-writes released
		n["sync/atomic.Load"+ty.n] = func(in *Interp, fr *frame, a []Value) Value {
			in.raceAcquire(cellKey("atomic", a[0]))
			return in.load(a[0].(PtrV), t)
		}
		n["sync/atomic.Store"+ty.n] = func(in *Interp, fr *frame, a []Value) Value {
			in.raceRelease(cellKey("atomic", a[0]))
			in.store(a[0].(PtrV), t, a[1])
			return nil
		}
		n["sync/atomic.Add"+ty.n] = func(in *Interp, fr *frame, a []Value) Value {
			in.raceAcquire(cellKey("atomic", a[0]))
			in.raceRelease(cellKey("atomic", a[0]))
			v := in.st.Add(in.load(a[0].(PtrV), t).(*Term), a[1].(*Term))
			in.store(a[0].(PtrV), t, v)
			return v
		}
		n["sync/atomic.Swap"+ty.n] = func(in *Interp, fr *frame, a []Value) Value {
			in.raceAcquire(cellKey("atomic", a[0]))
			in.raceRelease(cellKey("atomic", a[0]))
			old := in.load(a[0].(PtrV), t)
			in.store(a[0].(PtrV), t, a[1])
			return old
		}
		n["sync/atomic.CompareAndSwap"+ty.n] = func(in *Interp, fr *frame, a []Value) Value {
			in.raceAcquire(cellKey("atomic", a[0]))
			in.raceRelease(cellKey("atomic", a[0]))
			old := in.load(a[0].(PtrV), t).(*Term)
			if in.branch(in.st.Eq(old, a[1].(*Term))) {
				in.store(a[0].(PtrV), t, a[2])
				return in.st.True
			}
			return in.st.False
		}
	}
}

func (in *Interp) indexByte(b []*Term, c *Term) Value {
	st := in.st
	r := st.Const(^uint64(0), 64)
	for i := len(b) - 1; i >= 0; i-- {
		r = st.Ite(st.Eq(b[i], c), st.Const(uint64(i), 64), r)
	}
	return r
}

func (in *Interp) countByte(b []*Term, c *Term) Value {
	st := in.st
	r := st.Const(0, 64)
	for i := range b {
		r = st.Add(r, st.Ite(st.Eq(b[i], c), st.Const(1, 64), st.Const(0, 64)))
	}
	return r
}

func (in *Interp) indexString(s, sub []*Term) Value {
	st := in.st
	r := st.Const(^uint64(0), 64)
	for i := len(s) - len(sub); i >= 0; i-- {
		m := st.True
		for j := range sub {
			m = st.BAnd(m, st.Eq(s[i+j], sub[j]))
		}
		r = st.Ite(m, st.Const(uint64(i), 64), r)
	}
	return r
}

// findMethod returns the exported method name of type t, or nil.
func (in *Interp) findMethod(t types.Type, name string) *ssa.Function {
	ms := in.prog.MethodSets.MethodSet(t)
	sel := ms.Lookup(nil, name)
	if sel == nil {
		return nil
	}
	return in.prog.MethodValue(sel)
}
