package sym

import (
	"fmt"
	"go/types"
	"strings"

	"golang.org/x/tools/go/ssa"
)

// notHandled is returned by a native that wants the SSA body interpreted instead.
type notHandledT struct{}

var notHandled = notHandledT{}

// stubPkgPrefixes: every function of these packages is a no-op returning zero values.
var stubPkgPrefixes = []string{
	"go.uber.org/zap",
	"go.opentelemetry.io/",
	"log",
}

var globalModels = map[string]func(in *Interp, c *Cell){}

var zeroOKGlobals = map[string]bool{}

func pkgPathOf(fn *ssa.Function) string {
	if fn.Pkg != nil {
		return fn.Pkg.Pkg.Path()
	}
	if fn.Signature.Recv() != nil {
		t := fn.Signature.Recv().Type()
		if p, ok := t.(*types.Pointer); ok {
			t = p.Elem()
		}
		if n, ok := t.(*types.Named); ok && n.Obj().Pkg() != nil {
			return n.Obj().Pkg().Path()
		}
	}
	if o := fn.Origin(); o != nil && o.Pkg != nil {
		return o.Pkg.Pkg.Path()
	}
	return ""
}

func (in *Interp) lookupNative(fn *ssa.Function, name string) nativeFn {
	if n, ok := nativeTable[name]; ok {
		return n
	}
	short := fn.Name()
	if strings.HasPrefix(short, "verif") || strings.HasPrefix(short, "vAnd") || strings.HasPrefix(short, "vOr") || strings.HasPrefix(short, "vNot") || strings.HasPrefix(short, "vImp") {
		if n, ok := intrinsics[short]; ok {
			return n
		}
	}
	pp := pkgPathOf(fn)
	for _, p := range stubPkgPrefixes {
		if pp == p || strings.HasPrefix(pp, p) {
			if keepReal[name] {
				return nil
			}
			return func(in *Interp, fr *frame, args []Value) Value { return in.zeroResults(fn) }
		}
	}
	return nil
}

// keepReal: functions of stubbed packages that are interpreted from their SSA all the same
// (the OpenTelemetry span context is plain data that ClientInfo puts on the wire).
var keepReal = map[string]bool{
	"go.opentelemetry.io/otel/trace.NewSpanContext":               true,
	"(go.opentelemetry.io/otel/trace.SpanContext).IsValid":        true,
	"(go.opentelemetry.io/otel/trace.SpanContext).HasTraceID":     true,
	"(go.opentelemetry.io/otel/trace.SpanContext).HasSpanID":      true,
	"(go.opentelemetry.io/otel/trace.SpanContext).TraceID":        true,
	"(go.opentelemetry.io/otel/trace.SpanContext).SpanID":         true,
	"(go.opentelemetry.io/otel/trace.SpanContext).TraceFlags":     true,
	"(go.opentelemetry.io/otel/trace.SpanContext).TraceState":     true,
	"(go.opentelemetry.io/otel/trace.TraceID).IsValid":            true,
	"(go.opentelemetry.io/otel/trace.SpanID).IsValid":             true,
	"(go.opentelemetry.io/otel/trace.SpanContext).IsSampled":      true,
	"(go.opentelemetry.io/otel/trace.SpanContext).IsRemote":       true,
	"(go.opentelemetry.io/otel/trace.TraceFlags).IsSampled":       true,
	"(go.opentelemetry.io/otel/trace.TraceFlags).WithSampled":     true,
	"(go.opentelemetry.io/otel/trace.SpanContext).WithTraceFlags": true,
	"go.opentelemetry.io/otel/trace/noop.NewTracerProvider":       true,
	"(go.opentelemetry.io/otel/trace/noop.TracerProvider).Tracer": true,
}

var nativeTable = map[string]nativeFn{}

var intrinsics = map[string]nativeFn{}

func init() {
	ident := func(in *Interp, fr *frame, a []Value) Value { return a[0] }
	nativeTable["math.Float64bits"] = ident
	nativeTable["math.Float32bits"] = ident
	nativeTable["math.Float64frombits"] = ident
	nativeTable["math.Float32frombits"] = ident
	nativeTable["math.Min"] = func(in *Interp, fr *frame, a []Value) Value {
		x, y := a[0].(*Term), a[1].(*Term)
		if !x.IsConst() || !y.IsConst() {
			in.unsupported("symbolic math.Min")
		}
		if in.floatVal(x) < in.floatVal(y) {
			return x
		}
		return y
	}

	// ----- intrinsics
	mkInt := func(w int) nativeFn {
		return func(in *Interp, fr *frame, a []Value) Value {
			return in.freshVar(in.mustConcStr(a[0], "label"), w)
		}
	}
	intrinsics["verifU8"] = mkInt(8)
	intrinsics["verifU16"] = mkInt(16)
	intrinsics["verifU32"] = mkInt(32)
	intrinsics["verifU64"] = mkInt(64)
	intrinsics["verifI64"] = mkInt(64)
	intrinsics["verifI32"] = mkInt(32)
	intrinsics["verifI16"] = mkInt(16)
	intrinsics["verifI8"] = mkInt(8)
	intrinsics["verifInt"] = mkInt(64)
	intrinsics["verifBool"] = func(in *Interp, fr *frame, a []Value) Value {
		v := in.freshVar(in.mustConcStr(a[0], "label"), 8)
		return in.st.Ne(v, in.st.Const(0, 8))
	}
	intrinsics["verifBytes"] = func(in *Interp, fr *frame, a []Value) Value {
		label := in.mustConcStr(a[0], "label")
		n := int(in.mustConst(a[1].(*Term), "verifBytes n"))
		b := make([]*Term, n)
		for i := range b {
			b[i] = in.freshVar(label, 8)
		}
		return in.bytesToSlice(b)
	}
	intrinsics["verifStr"] = func(in *Interp, fr *frame, a []Value) Value {
		label := in.mustConcStr(a[0], "label")
		n := int(in.mustConst(a[1].(*Term), "verifStr n"))
		b := make([]*Term, n)
		for i := range b {
			b[i] = in.freshVar(label, 8)
		}
		return StrV{B: b}
	}
	intrinsics["verifIntRange"] = func(in *Interp, fr *frame, a []Value) Value {
		label := in.mustConcStr(a[0], "label")
		lo := in.mustConst(a[1].(*Term), "lo")
		hi := in.mustConst(a[2].(*Term), "hi")
		if hi < lo {
			panic(abort{kind: "infeasible", msg: "empty range " + label})
		}
		if rv, ok := in.reused(label); ok {
			in.concreteInput(label, rv, 64)
			return in.st.Const(rv, 64)
		}
		k := in.choice(int(hi-lo+1), label)
		v := lo + int64(k)
		in.concreteInput(label, uint64(v), 64)
		in.out.Bounds[label] = fmt.Sprintf("%d..%d", lo, hi)
		return in.st.Const(uint64(v), 64)
	}
	intrinsics["verifChoice"] = func(in *Interp, fr *frame, a []Value) Value {
		label := in.mustConcStr(a[0], "label")
		n := in.mustConst(a[1].(*Term), "n")
		if rv, ok := in.reused(label); ok {
			in.concreteInput(label, rv, 64)
			return in.st.Const(rv, 64)
		}
		k := in.choice(int(n), label)
		in.concreteInput(label, uint64(k), 64)
		in.out.Bounds[label] = fmt.Sprintf("0..%d", n-1)
		return in.st.Const(uint64(k), 64)
	}
	intrinsics["verifAssume"] = func(in *Interp, fr *frame, a []Value) Value {
		c := a[0].(*Term)
		if c.IsConst() {
			if c.Val == 0 {
				panic(abort{kind: "infeasible", msg: "assumption false"})
			}
			return nil
		}
		if !in.ps.replaying() {
			if !in.feasible(c) {
				panic(abort{kind: "infeasible", msg: "assumption infeasible"})
			}
		}
		in.assertPC(c)
		return nil
	}
	intrinsics["verifAssert"] = func(in *Interp, fr *frame, a []Value) Value {
		in.checkAssert(a[0].(*Term), in.mustConcStr(a[1], "assert label"))
		return nil
	}
	intrinsics["verifFail"] = func(in *Interp, fr *frame, a []Value) Value {
		in.checkAssert(in.st.False, in.mustConcStr(a[0], "assert label"))
		return nil
	}
	intrinsics["verifOutside"] = func(in *Interp, fr *frame, a []Value) Value {
		panic(abort{kind: "outside", msg: in.mustConcStr(a[0], "label")})
	}
	intrinsics["verifNote"] = func(in *Interp, fr *frame, a []Value) Value {
		in.out.Asserts["note:"+in.mustConcStr(a[0], "label")]++
		return nil
	}
	intrinsics["verifObserveU64"] = func(in *Interp, fr *frame, a []Value) Value {
		in.observes = append(in.observes, obsRec{label: in.mustConcStr(a[0], "label"), terms: []*Term{a[1].(*Term)}})
		return nil
	}
	intrinsics["verifObserveBool"] = func(in *Interp, fr *frame, a []Value) Value {
		in.observes = append(in.observes, obsRec{label: in.mustConcStr(a[0], "label"), terms: []*Term{a[1].(*Term)}})
		return nil
	}
	intrinsics["verifObserveBytes"] = func(in *Interp, fr *frame, a []Value) Value {
		s := a[1].(SliceV)
		in.observes = append(in.observes, obsRec{label: in.mustConcStr(a[0], "label"), terms: in.sliceBytes(s, 1), bytes: true})
		return nil
	}
	intrinsics["verifObserveStr"] = func(in *Interp, fr *frame, a []Value) Value {
		s := a[1].(StrV)
		in.observes = append(in.observes, obsRec{label: in.mustConcStr(a[0], "label"), terms: s.B, bytes: true})
		return nil
	}
	intrinsics["vAnd"] = func(in *Interp, fr *frame, a []Value) Value { return in.st.BAnd(a[0].(*Term), a[1].(*Term)) }
	intrinsics["vOr"] = func(in *Interp, fr *frame, a []Value) Value { return in.st.BOr(a[0].(*Term), a[1].(*Term)) }
	intrinsics["vNot"] = func(in *Interp, fr *frame, a []Value) Value { return in.st.BNot(a[0].(*Term)) }
	intrinsics["vImp"] = func(in *Interp, fr *frame, a []Value) Value {
		return in.st.BOr(in.st.BNot(a[0].(*Term)), a[1].(*Term))
	}
	intrinsics["verifIsConcrete"] = func(in *Interp, fr *frame, a []Value) Value {
		return in.st.Bool(a[0].(*Term).IsConst())
	}
	intrinsics["verifYield"] = func(in *Interp, fr *frame, a []Value) Value { in.Yield(); return nil }
	intrinsics["verifSchedPolicy"] = func(in *Interp, fr *frame, a []Value) Value {
		in.co.policy = in.mustConcStr(a[0], "policy")
		in.co.freeMax = int(in.mustConst(a[1].(*Term), "freeMax"))
		return nil
	}
	intrinsics["verifLiveGoroutines"] = func(in *Interp, fr *frame, a []Value) Value {
		return in.st.Const(uint64(len(in.liveCoros())), 64)
	}
	intrinsics["verifParam"] = func(in *Interp, fr *frame, a []Value) Value {
		name := in.mustConcStr(a[0], "param")
		v := int(in.mustConst(a[1].(*Term), "param default"))
		if x, ok := in.cfg.Params[name]; ok {
			v = x
		}
		in.out.Bounds["param:"+name] = fmt.Sprint(v)
		return in.st.Const(uint64(v), 64)
	}
	intrinsics["verifEmitBytes"] = func(in *Interp, fr *frame, a []Value) Value {
		l := in.mustConcStr(a[0], "label")
		in.emits = append(in.emits, emitRec{label: l, terms: in.sliceBytes(a[1].(SliceV), 1)})
		in.observes = append(in.observes, obsRec{label: "emit:" + l, terms: in.sliceBytes(a[1].(SliceV), 1), bytes: true})
		return nil
	}
	intrinsics["verifEmitU64"] = func(in *Interp, fr *frame, a []Value) Value {
		l := in.mustConcStr(a[0], "label")
		in.emits = append(in.emits, emitRec{label: l, terms: []*Term{a[1].(*Term)}})
		in.observes = append(in.observes, obsRec{label: "emit:" + l, terms: []*Term{a[1].(*Term)}})
		return nil
	}
	intrinsics["verifEmitBool"] = func(in *Interp, fr *frame, a []Value) Value {
		l := in.mustConcStr(a[0], "label")
		in.emits = append(in.emits, emitRec{label: l, terms: []*Term{in.st.BoolToBV(a[1].(*Term), 8)}})
		in.observes = append(in.observes, obsRec{label: "emit:" + l, terms: []*Term{in.st.BoolToBV(a[1].(*Term), 8)}})
		return nil
	}
	intrinsics["verifGrowExact"] = func(in *Interp, fr *frame, a []Value) Value {
		in.growExact = a[0].(*Term).Val != 0
		return nil
	}
}

type obsRec struct {
	label string
	terms []*Term
	bytes bool
}

// reused returns the value the first program of a dual run chose for this input.
func (in *Interp) reused(label string) (uint64, bool) {
	if in.reuse == nil {
		return 0, false
	}
	v, ok := in.reuse[fmt.Sprintf("%s#%d", label, in.varCount[label])]
	return v, ok
}

// concreteInput records a concrete harness input so that native replay can reproduce it.
func (in *Interp) concreteInput(label string, v uint64, w int) {
	k := in.varCount[label]
	in.varCount[label] = k + 1
	in.concrete[fmt.Sprintf("%s#%d", label, k)] = v
}

// checkAssert decides one harness assertion on the current path.
func (in *Interp) checkAssert(c *Term, label string) {
	in.out.Asserts[label]++
	if c.IsConst() {
		if c.Val != 0 {
			return
		}
		in.out.Label = label
		in.out.Msg = "assertion is constant false on this path"
		in.out.Site = in.site()
		r, m := in.sol.Check(nil, true, in.st.Vars)
		in.out.Queries++
		if r == Sat {
			in.out.Model = m
		}
		panic(abort{kind: "violation", msg: label})
	}
	in.out.SymAssert++
	r, m := in.sol.Check(in.st.BNot(c), true, in.st.Vars)
	in.out.Queries++
	if in.cfg.CrossCheck && len(in.out.Cross) < 2 && in.sol.KeepTrace {
		in.out.Cross = append(in.out.Cross, CrossQuery{Label: label, Script: in.sol.Script.String(), Verdict: r})
	}
	switch r {
	case Unsat:
		return
	case Unknown:
		in.out.Unknowns++
		in.out.Label = label
		panic(abort{kind: "unknown", msg: "solver returned unknown for assertion " + label})
	}
	in.out.Label = label
	in.out.Msg = "assertion can fail"
	in.out.Site = in.site()
	in.out.Model = m
	panic(abort{kind: "violation", msg: label})
}

// ---------------------------------------------------------------- type lookup helpers

func (w *World) namedType(pkg, name string) types.Type {
	w.mu.Lock()
	defer w.mu.Unlock()
	key := pkg + "." + name
	if t, ok := w.typeCache[key]; ok {
		return t
	}
	p := w.Prog.ImportedPackage(pkg)
	if p == nil {
		panic("package not loaded: " + pkg)
	}
	o := p.Pkg.Scope().Lookup(name)
	if o == nil {
		panic("no type " + key)
	}
	t := o.Type()
	w.typeCache[key] = t
	return t
}

func (in *Interp) sentinelError(name string) Value {
	if v, ok := in.sentinel[name]; ok {
		return v
	}
	t := in.world.namedType("errors", "errorString")
	c := in.newCell(t)
	in.store(PtrV{C: c.Kids[0]}, types.Typ[types.String], in.strConst(name))
	v := IfaceV{T: types.NewPointer(t), V: PtrV{C: c}}
	in.sentinel[name] = v
	return v
}
