package sym

import (
	"fmt"
	"go/types"
	"strings"
)

// Third-party codecs and the CityHash checksum are loop-heavy and not the
// subject: CH128 is an uninterpreted function per input length (with a
// no-collision assumption among the applications seen on a path), LZ4/ZSTD are
// an opaque pair with decompress(compress(x)) = x.

type codecRec struct {
	out []*Term
	src []*Term
}

func termsKey(ts []*Term) string {
	var sb strings.Builder
	for _, t := range ts {
		fmt.Fprintf(&sb, "%d.", t.ID)
	}
	return sb.String()
}

type ch128App struct {
	args   []*Term
	lo, hi *Term
}

func (in *Interp) ch128(b []*Term) (lo, hi *Term) {
	st := in.st
	n := len(b)
	lo = st.UF(fmt.Sprintf("CH128.lo.%d", n), 64, b...)
	hi = st.UF(fmt.Sprintf("CH128.hi.%d", n), 64, b...)
	apps, _ := in.ext["ch128apps"].([]ch128App)
	for _, a := range apps {
		if len(a.args) == n && termsKey(a.args) == termsKey(b) {
			return lo, hi
		}
	}
	// no-collision assumption against every earlier application on this path
	for _, a := range apps {
		same := st.BAnd(st.Eq(a.lo, lo), st.Eq(a.hi, hi))
		if len(a.args) != n {
			in.assertPC(st.BNot(same))
			continue
		}
		eq := st.True
		for i := range b {
			eq = st.BAnd(eq, st.Eq(a.args[i], b[i]))
		}
		in.assertPC(st.BOr(st.BNot(same), eq))
	}
	in.ext["ch128apps"] = append(apps, ch128App{args: b, lo: lo, hi: hi})
	return lo, hi
}

func (in *Interp) codecCompress(kind string, src []*Term, room int) []*Term {
	n := len(src) + 1
	if len(src) == 0 {
		n = 1
	}
	if n > room {
		n = room
	}
	out := make([]*Term, n)
	for i := range out {
		out[i] = in.freshVar(kind+".out", 8)
	}
	recs, _ := in.ext["codec:"+kind].(map[string]codecRec)
	if recs == nil {
		recs = map[string]codecRec{}
		in.ext["codec:"+kind] = recs
	}
	recs[termsKey(out)] = codecRec{out: out, src: src}
	return out
}

func (in *Interp) codecLookup(kind string, data []*Term) ([]*Term, bool) {
	recs, _ := in.ext["codec:"+kind].(map[string]codecRec)
	r, ok := recs[termsKey(data)]
	return r.src, ok
}

func init() {
	stubPkgPrefixes = append(stubPkgPrefixes, "github.com/klauspost/compress/zstd")
	n := nativeTable
	n["github.com/go-faster/city.CH128"] = func(in *Interp, fr *frame, a []Value) Value {
		lo, hi := in.ch128(in.sliceBytes(a[0].(SliceV), 1))
		return StructV{lo, hi}
	}
	compress := func(kind string) nativeFn {
		return func(in *Interp, fr *frame, a []Value) Value {
			src := in.sliceBytes(a[1].(SliceV), 1)
			dst := a[2].(SliceV)
			// pierrec/lz4 contract: with a destination smaller than CompressBlockBound(len(src)) a
			// payload that does not shrink yields (0, nil) - "incompressible" - and nothing is written
			if bound := len(src) + len(src)/255 + 16; len(src) > 0 && dst.Len < bound {
				if in.choice(2, "lz4.incompressible") == 1 {
					return TupleV{in.st.Const(0, 64), IfaceV{}}
				}
			}
			out := in.codecCompress(kind, src, dst.Len)
			for i, t := range out {
				dst.C.setByte(dst.Off+i, t)
			}
			return TupleV{in.st.Const(uint64(len(out)), 64), IfaceV{}}
		}
	}
	n["(*github.com/pierrec/lz4/v4.Compressor).CompressBlock"] = compress("lz4")
	n["(*github.com/pierrec/lz4/v4.CompressorHC).CompressBlock"] = compress("lz4")
	n["github.com/pierrec/lz4/v4.UncompressBlock"] = func(in *Interp, fr *frame, a []Value) Value {
		src := in.sliceBytes(a[0].(SliceV), 1)
		dst := a[1].(SliceV)
		orig, ok := in.codecLookup("lz4", src)
		if ok && overlaps(a[0].(SliceV), dst, dst.Len) {
			// decoding over one's own input: the decoder reads what it has just overwritten
			ok = false
		}
		if ok {
			if len(orig) > dst.Len {
				return TupleV{in.st.Const(0, 64), in.newErrorString("errors", in.strConst("lz4: invalid source or destination buffer too short"))}
			}
			for i, t := range orig {
				dst.C.setByte(dst.Off+i, t)
			}
			return TupleV{in.st.Const(uint64(len(orig)), 64), IfaceV{}}
		}
		// bytes that no compressor produced: the codec may fail or produce anything
		if in.choice(2, "lz4.garbage") == 0 {
			return TupleV{in.st.Const(0, 64), in.newErrorString("errors", in.strConst("lz4: invalid source"))}
		}
		k := in.choice(dst.Len+1, "lz4.garbage.len")
		for i := 0; i < k; i++ {
			dst.C.setByte(dst.Off+i, in.freshVar("lz4.garbage.out", 8))
		}
		return TupleV{in.st.Const(uint64(k), 64), IfaceV{}}
	}
	n["(*github.com/klauspost/compress/zstd.Encoder).EncodeAll"] = func(in *Interp, fr *frame, a []Value) Value {
		src := in.sliceBytes(a[1].(SliceV), 1)
		dst := a[2].(SliceV)
		out := in.codecCompress("zstd", src, len(src)+1)
		return in.appendOp(dst, in.bytesToSlice(out), types.NewSlice(types.Typ[types.Byte]), types.NewSlice(types.Typ[types.Byte]))
	}
	n["(*github.com/klauspost/compress/zstd.Decoder).DecodeAll"] = func(in *Interp, fr *frame, a []Value) Value {
		src := in.sliceBytes(a[1].(SliceV), 1)
		dst := a[2].(SliceV)
		bt := types.NewSlice(types.Typ[types.Byte])
		orig, ok := in.codecLookup("zstd", src)
		if ok && overlaps(a[1].(SliceV), dst, dst.Cap) {
			ok = false // the output would be written over the input still being read
		}
		if ok {
			return TupleV{in.appendOp(dst, in.bytesToSlice(orig), bt, bt), IfaceV{}}
		}
		if in.choice(2, "zstd.garbage") == 0 {
			return TupleV{SliceV{}, in.newErrorString("errors", in.strConst("zstd: invalid input"))}
		}
		k := in.choice(dst.Cap+2, "zstd.garbage.len")
		g := make([]*Term, k)
		for i := range g {
			g[i] = in.freshVar("zstd.garbage.out", 8)
		}
		return TupleV{in.appendOp(dst, in.bytesToSlice(g), bt, bt), IfaceV{}}
	}
	// constructors: opaque non-nil handles
	n["github.com/klauspost/compress/zstd.NewWriter"] = func(in *Interp, fr *frame, a []Value) Value {
		return TupleV{PtrV{C: in.newFlatCell(types.Typ[types.Uint8], 1)}, IfaceV{}}
	}
	n["github.com/klauspost/compress/zstd.NewReader"] = func(in *Interp, fr *frame, a []Value) Value {
		return TupleV{PtrV{C: in.newFlatCell(types.Typ[types.Uint8], 1)}, IfaceV{}}
	}
}

// overlaps reports whether the first n bytes of dst's backing share memory with src.
func overlaps(src, dst SliceV, n int) bool {
	if src.C == nil || src.C != dst.C || src.Len == 0 || n == 0 {
		return false
	}
	return src.Off < dst.Off+n && dst.Off < src.Off+src.Len
}
