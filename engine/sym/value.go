package sym

import (
	"fmt"
	"go/types"

	"golang.org/x/tools/go/ssa"
)

// Value is a symbolic runtime value:
//
//	*Term    integers, booleans (W==0), floats (bit pattern)
//	StrV     string with concrete length, symbolic bytes
//	PtrV     pointer (also unsafe.Pointer)
//	SliceV   slice header with concrete shape
//	StructV  struct register value
//	ArrayV   array register value
//	IfaceV   interface with concrete dynamic type
//	*FuncV   function value / closure / bound method / native
//	*MapV    map
//	*ChanV   channel
//	TupleV   multiple results
type Value interface{}

type StrV struct{ B []*Term }

type symIdx struct {
	idx    *Term // 64-bit index, already constrained to < n
	stride int   // bytes
	n      int
}

type PtrV struct {
	C   *Cell
	Off int // byte offset for flat cells
	Sym *symIdx
}

type SliceV struct {
	C             *Cell
	Off, Len, Cap int // Off: bytes for flat cells, elements otherwise
}

type StructV []Value
type ArrayV []Value
type TupleV []Value

type IfaceV struct {
	T types.Type // nil for nil interface
	V Value
}

type nativeFn func(in *Interp, fr *frame, args []Value) Value

type FuncV struct {
	Fn     *ssa.Function
	Env    []Value
	Native nativeFn
	Name   string
}

type mapEntry struct {
	k, v    Value
	deleted bool
	concKey bool
}

type MapV struct {
	id      int
	entries []*mapEntry
	kt, vt  types.Type
	conc    map[string]*mapEntry
}

type ChanV struct {
	id     int
	buf    []Value
	cap    int
	closed bool
	et     types.Type
	recvq  []*waiter
	sendw  []*waiter
	// race.go: clocks of the buffered messages, of the receives so far, of the close
	bufVC   []vclock
	recvVC  vclock
	closeVC vclock
}

// Cell is a unit of addressable storage.
type Cell struct {
	ID     int
	T      types.Type
	kind   uint8 // cScalar, cFlat, cKids
	size   int   // flat size in bytes
	flat   []*Term
	sparse map[int]*Term
	Kids   []*Cell
	V      Value
	name   string
}

const (
	cScalar = iota
	cFlat
	cKids
)

const sparseThreshold = 1 << 14

var sizes = types.StdSizes{WordSize: 8, MaxAlign: 8}

func sizeof(t types.Type) int { return int(sizes.Sizeof(t)) }

// isFlat reports whether values of t are stored as raw bytes.
func isFlat(t types.Type) bool {
	switch u := t.Underlying().(type) {
	case *types.Basic:
		switch u.Kind() {
		case types.String, types.UnsafePointer, types.UntypedNil, types.Invalid:
			return false
		}
		return true
	case *types.Array:
		return isFlat(u.Elem())
	case *types.Struct:
		for i := 0; i < u.NumFields(); i++ {
			if !isFlat(u.Field(i).Type()) {
				return false
			}
		}
		return true
	}
	return false
}

func (c *Cell) getByte(st *Store, i int) *Term {
	if i < 0 || i >= c.size {
		panic(fmt.Sprintf("flat cell byte index %d out of range [0,%d)", i, c.size))
	}
	var t *Term
	if c.sparse != nil {
		t = c.sparse[i]
	} else {
		t = c.flat[i]
	}
	if t == nil {
		return st.Const(0, 8)
	}
	return t
}

func (c *Cell) setByte(i int, t *Term) {
	if i < 0 || i >= c.size {
		panic(fmt.Sprintf("flat cell byte index %d out of range [0,%d)", i, c.size))
	}
	if t.W != 8 {
		panic("setByte: not a byte")
	}
	if c.sparse != nil {
		c.sparse[i] = t
	} else {
		c.flat[i] = t
	}
}

func (in *Interp) newFlatCell(t types.Type, size int) *Cell {
	in.nextCell++
	c := &Cell{ID: in.nextCell, T: t, kind: cFlat, size: size}
	if size > sparseThreshold {
		c.sparse = map[int]*Term{}
	} else {
		c.flat = make([]*Term, size)
	}
	in.stats.allocBytes += int64(size)
	return c
}

// newCell allocates zeroed storage for one value of type t.
func (in *Interp) newCell(t types.Type) *Cell {
	if isFlat(t) {
		return in.newFlatCell(t, sizeof(t))
	}
	in.nextCell++
	c := &Cell{ID: in.nextCell, T: t}
	switch u := t.Underlying().(type) {
	case *types.Struct:
		c.kind = cKids
		c.Kids = make([]*Cell, u.NumFields())
		for i := range c.Kids {
			c.Kids[i] = in.newCell(u.Field(i).Type())
		}
	case *types.Array:
		c.kind = cKids
		c.Kids = make([]*Cell, int(u.Len()))
		for i := range c.Kids {
			c.Kids[i] = in.newCell(u.Elem())
		}
	default:
		c.kind = cScalar
		c.V = in.zero(t)
	}
	return c
}

// newArrayCell allocates backing storage for n elements of type elem.
func (in *Interp) newArrayCell(elem types.Type, n int) *Cell {
	if isFlat(elem) {
		return in.newFlatCell(types.NewArray(elem, int64(n)), n*sizeof(elem))
	}
	in.nextCell++
	c := &Cell{ID: in.nextCell, T: types.NewArray(elem, int64(n)), kind: cKids}
	c.Kids = make([]*Cell, n)
	for i := range c.Kids {
		c.Kids[i] = in.newCell(elem)
	}
	return c
}

func basicWidth(b *types.Basic) (w int, signed bool) {
	switch b.Kind() {
	case types.Bool, types.UntypedBool:
		return 0, false
	case types.Int8:
		return 8, true
	case types.Uint8:
		return 8, false
	case types.Int16:
		return 16, true
	case types.Uint16:
		return 16, false
	case types.Int32, types.UntypedRune:
		return 32, true
	case types.Uint32:
		return 32, false
	case types.Int, types.Int64, types.UntypedInt:
		return 64, true
	case types.Uint, types.Uint64, types.Uintptr:
		return 64, false
	case types.Float32:
		return 32, false
	case types.Float64, types.UntypedFloat:
		return 64, false
	}
	return -1, false
}

func isFloat(t types.Type) bool {
	b, ok := t.Underlying().(*types.Basic)
	return ok && b.Info()&types.IsFloat != 0
}

func isString(t types.Type) bool {
	b, ok := t.Underlying().(*types.Basic)
	return ok && b.Info()&types.IsString != 0
}

// intType returns width and signedness of an integer/bool/float type.
func intType(t types.Type) (int, bool) {
	b, ok := t.Underlying().(*types.Basic)
	if !ok {
		panic(fmt.Sprintf("not a basic type: %v", t))
	}
	w, s := basicWidth(b)
	if w < 0 {
		panic(fmt.Sprintf("no width for type %v", t))
	}
	return w, s
}

// zero returns the zero register value of type t.
func (in *Interp) zero(t types.Type) Value {
	st := in.st
	switch u := t.Underlying().(type) {
	case *types.Basic:
		switch u.Kind() {
		case types.String, types.UntypedString:
			return StrV{}
		case types.UnsafePointer, types.UntypedNil:
			return PtrV{}
		}
		w, _ := basicWidth(u)
		if w < 0 {
			panic(fmt.Sprintf("zero: unsupported basic %v", u))
		}
		return st.Const(0, w)
	case *types.Pointer:
		return PtrV{}
	case *types.Slice:
		return SliceV{}
	case *types.Struct:
		s := make(StructV, u.NumFields())
		for i := range s {
			s[i] = in.zero(u.Field(i).Type())
		}
		return s
	case *types.Array:
		a := make(ArrayV, int(u.Len()))
		for i := range a {
			a[i] = in.zero(u.Elem())
		}
		return a
	case *types.Interface:
		return IfaceV{}
	case *types.Map:
		return (*MapV)(nil)
	case *types.Chan:
		return (*ChanV)(nil)
	case *types.Signature:
		return (*FuncV)(nil)
	case *types.Tuple:
		tv := make(TupleV, u.Len())
		for i := range tv {
			tv[i] = in.zero(u.At(i).Type())
		}
		return tv
	}
	panic(fmt.Sprintf("zero: unsupported type %v (%T)", t, t.Underlying()))
}

// decodeFlat reads a value of flat type t at byte offset off of cell c.
func (in *Interp) decodeFlat(c *Cell, off int, t types.Type) Value {
	st := in.st
	switch u := t.Underlying().(type) {
	case *types.Basic:
		w, _ := basicWidth(u)
		if w == 0 {
			return st.Ne(c.getByte(st, off), st.Const(0, 8))
		}
		n := w / 8
		parts := make([]*Term, n)
		for i := 0; i < n; i++ {
			parts[n-1-i] = c.getByte(st, off+i)
		}
		return st.Concat(parts...)
	case *types.Array:
		es := sizeof(u.Elem())
		a := make(ArrayV, int(u.Len()))
		for i := range a {
			a[i] = in.decodeFlat(c, off+i*es, u.Elem())
		}
		return a
	case *types.Struct:
		offs := fieldOffsets(u)
		s := make(StructV, u.NumFields())
		for i := range s {
			s[i] = in.decodeFlat(c, off+offs[i], u.Field(i).Type())
		}
		return s
	}
	panic(fmt.Sprintf("decodeFlat: type %v is not flat", t))
}

var offsCache = map[*types.Struct][]int{}
var offsMu = make(chan struct{}, 1)

func fieldOffsets(u *types.Struct) []int {
	offsMu <- struct{}{}
	defer func() { <-offsMu }()
	if o, ok := offsCache[u]; ok {
		return o
	}
	fs := make([]*types.Var, u.NumFields())
	for i := range fs {
		fs[i] = u.Field(i)
	}
	o64 := sizes.Offsetsof(fs)
	o := make([]int, len(o64))
	for i := range o {
		o[i] = int(o64[i])
	}
	offsCache[u] = o
	return o
}

// encodeFlat writes v of flat type t at byte offset off of cell c.
func (in *Interp) encodeFlat(c *Cell, off int, t types.Type, v Value) {
	st := in.st
	switch u := t.Underlying().(type) {
	case *types.Basic:
		w, _ := basicWidth(u)
		x, ok := v.(*Term)
		if !ok {
			panic(fmt.Sprintf("encodeFlat: expected term for %v, got %T", t, v))
		}
		if w == 0 {
			c.setByte(off, st.BoolToBV(x, 8))
			return
		}
		if x.W != w {
			panic(fmt.Sprintf("encodeFlat: width %d for type %v", x.W, t))
		}
		for i := 0; i < w/8; i++ {
			c.setByte(off+i, st.Extract(x, 8*i+7, 8*i))
		}
	case *types.Array:
		es := sizeof(u.Elem())
		a := v.(ArrayV)
		for i := range a {
			in.encodeFlat(c, off+i*es, u.Elem(), a[i])
		}
	case *types.Struct:
		offs := fieldOffsets(u)
		s := v.(StructV)
		for i := range s {
			in.encodeFlat(c, off+offs[i], u.Field(i).Type(), s[i])
		}
	default:
		panic(fmt.Sprintf("encodeFlat: type %v is not flat", t))
	}
}

func isSliceHeaderStruct(t types.Type) bool {
	u, ok := t.Underlying().(*types.Struct)
	if !ok || u.NumFields() != 3 {
		return false
	}
	b, ok := u.Field(0).Type().Underlying().(*types.Basic)
	return ok && b.Kind() == types.UnsafePointer
}

// load reads a value of type t through pointer p.
func (in *Interp) load(p PtrV, t types.Type) Value {
	if p.C == nil {
		in.goPanicRuntime("nil pointer dereference")
	}
	st := in.st
	c := p.C
	if p.Sym != nil {
		// ite-chain over the n candidate positions
		var r Value
		for i := p.Sym.n - 1; i >= 0; i-- {
			v := in.decodeFlat(c, p.Off+i*p.Sym.stride, t)
			if r == nil {
				r = v
				continue
			}
			r = in.iteValue(st.Eq(p.Sym.idx, st.Const(uint64(i), 64)), v, r)
		}
		return r
	}
	switch c.kind {
	case cFlat:
		return in.decodeFlat(c, p.Off, t)
	case cKids:
		switch u := t.Underlying().(type) {
		case *types.Struct:
			if len(c.Kids) != u.NumFields() {
				panic(fmt.Sprintf("load: struct shape mismatch %v vs cell %v", t, c.T))
			}
			s := make(StructV, len(c.Kids))
			for i, k := range c.Kids {
				s[i] = in.load(PtrV{C: k}, u.Field(i).Type())
			}
			return s
		case *types.Array:
			a := make(ArrayV, int(u.Len()))
			for i := range a {
				a[i] = in.load(PtrV{C: c.Kids[p.Off+i]}, u.Elem())
			}
			return a
		case *types.Slice:
			// reinterpretation of struct{Data unsafe.Pointer; Len, Cap int} as a slice
			if len(c.Kids) == 3 {
				if d, ok := c.Kids[0].V.(PtrV); ok {
					ln := in.mustConst(in.load(PtrV{C: c.Kids[1]}, types.Typ[types.Int]).(*Term), "slice header Len")
					cp := in.mustConst(in.load(PtrV{C: c.Kids[2]}, types.Typ[types.Int]).(*Term), "slice header Cap")
					if d.C == nil {
						return SliceV{}
					}
					if d.C.kind != cFlat {
						in.unsupported("unsafe slice view over non-flat memory")
					}
					es := sizeof(u.Elem())
					if d.Off+int(cp)*es > d.C.size {
						// Capacity exceeds backing; clamp is wrong, report.
						in.goPanicRuntime("unsafe slice header exceeds backing array")
					}
					return SliceV{C: d.C, Off: d.Off, Len: int(ln), Cap: int(cp)}
				}
			}
		}
		panic(fmt.Sprintf("load: cannot load %v from cell of type %v", t, c.T))
	default:
		if isSliceHeaderStruct(t) {
			if sv, ok := c.V.(SliceV); ok {
				return StructV{PtrV{C: sv.C, Off: sv.Off}, st.Const(uint64(sv.Len), 64), st.Const(uint64(sv.Cap), 64)}
			}
		}
		return c.V
	}
}

// store writes v of type t through pointer p.
func (in *Interp) store(p PtrV, t types.Type, v Value) {
	if p.C == nil {
		in.goPanicRuntime("nil pointer dereference")
	}
	st := in.st
	c := p.C
	if p.Sym != nil {
		for i := 0; i < p.Sym.n; i++ {
			off := p.Off + i*p.Sym.stride
			old := in.decodeFlat(c, off, t)
			nv := in.iteValue(st.Eq(p.Sym.idx, st.Const(uint64(i), 64)), v, old)
			in.encodeFlat(c, off, t, nv)
		}
		return
	}
	switch c.kind {
	case cFlat:
		in.encodeFlat(c, p.Off, t, v)
	case cKids:
		switch u := t.Underlying().(type) {
		case *types.Struct:
			s := v.(StructV)
			for i, k := range c.Kids {
				in.store(PtrV{C: k}, u.Field(i).Type(), s[i])
			}
		case *types.Array:
			a := v.(ArrayV)
			for i := range a {
				in.store(PtrV{C: c.Kids[p.Off+i]}, u.Elem(), a[i])
			}
		default:
			panic(fmt.Sprintf("store: cannot store %v into cell of type %v", t, c.T))
		}
	default:
		c.V = v
	}
}

// iteValue builds ite(c, a, b) structurally.
func (in *Interp) iteValue(c *Term, a, b Value) Value {
	if c.IsConst() {
		if c.Val != 0 {
			return a
		}
		return b
	}
	switch x := a.(type) {
	case *Term:
		return in.st.Ite(c, x, b.(*Term))
	case StructV:
		y := b.(StructV)
		r := make(StructV, len(x))
		for i := range x {
			r[i] = in.iteValue(c, x[i], y[i])
		}
		return r
	case ArrayV:
		y := b.(ArrayV)
		r := make(ArrayV, len(x))
		for i := range x {
			r[i] = in.iteValue(c, x[i], y[i])
		}
		return r
	case StrV:
		y := b.(StrV)
		if len(x.B) == len(y.B) {
			r := make([]*Term, len(x.B))
			for i := range r {
				r[i] = in.st.Ite(c, x.B[i], y.B[i])
			}
			return StrV{r}
		}
	}
	// fall back to forking
	if in.branch(c) {
		return a
	}
	return b
}

// ----- strings -----

func (in *Interp) strConst(s string) StrV {
	b := make([]*Term, len(s))
	for i := 0; i < len(s); i++ {
		b[i] = in.st.Const(uint64(s[i]), 8)
	}
	return StrV{b}
}

// concStr returns the concrete contents of s if all bytes are constants.
func concStr(s StrV) (string, bool) {
	b := make([]byte, len(s.B))
	for i, t := range s.B {
		if !t.IsConst() {
			return "", false
		}
		b[i] = byte(t.Val)
	}
	return string(b), true
}

func (in *Interp) mustConcStr(v Value, what string) string {
	s, ok := concStr(v.(StrV))
	if !ok {
		in.unsupported("symbolic string where concrete needed: " + what)
	}
	return s
}

func (in *Interp) strEq(a, b StrV) *Term {
	if len(a.B) != len(b.B) {
		return in.st.False
	}
	r := in.st.True
	for i := range a.B {
		r = in.st.BAnd(r, in.st.Eq(a.B[i], b.B[i]))
	}
	return r
}

// strLess builds a < b lexicographically.
func (in *Interp) strLess(a, b StrV) *Term {
	st := in.st
	n := len(a.B)
	if len(b.B) < n {
		n = len(b.B)
	}
	// result for equal prefixes of length n
	r := st.Bool(len(a.B) < len(b.B))
	for i := n - 1; i >= 0; i-- {
		r = st.Ite(st.Ult(a.B[i], b.B[i]), st.True, st.Ite(st.Ult(b.B[i], a.B[i]), st.False, r))
	}
	return r
}

// sliceBytes returns the byte terms of a []byte (or flat) slice.
func (in *Interp) sliceBytes(s SliceV, esz int) []*Term {
	n := s.Len * esz
	out := make([]*Term, n)
	if n == 0 {
		return out
	}
	if s.C.kind != cFlat {
		panic("sliceBytes on non-flat slice")
	}
	for i := 0; i < n; i++ {
		out[i] = s.C.getByte(in.st, s.Off+i)
	}
	return out
}

func (in *Interp) bytesToSlice(b []*Term) SliceV {
	c := in.newFlatCell(types.NewArray(types.Typ[types.Byte], int64(len(b))), len(b))
	for i, t := range b {
		c.setByte(i, t)
	}
	return SliceV{C: c, Len: len(b), Cap: len(b)}
}

// mustConst returns the value of a constant term; a symbolic term is
// concretised by forking.
func (in *Interp) mustConst(t *Term, what string) int64 {
	if t.IsConst() {
		return sx(t.Val, t.W)
	}
	return in.concretize(t, what)
}
