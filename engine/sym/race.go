package sym

import (
	"fmt"
	"go/types"
	"strings"

	"golang.org/x/tools/go/ssa"
)

// Happens-before race analysis (Config.Race).
//
// Every coroutine carries a vector clock; every synchronisation operation the engine models
// (go statement, channel send/receive/close, select, Mutex/RWMutex, Once, WaitGroup, Pool,
// sync/atomic, context cancellation) is a release and/or an acquire on a clock attached to the
// synchronisation object. Every load and store executed by interpreted (non-harness) code is
// checked against the last write and the reads since then of the same bytes: two accesses to
// the same byte, at least one a write, by different goroutines and not ordered by
// happens-before are a data race - on this path and in every interleaving of it that keeps the
// same synchronisation order, whether or not the cooperative schedule ran them back to back.
//
// Where the model is coarser than the Go memory model it errs towards MORE happens-before edges
// (RWMutex read locks release, every receive on a buffered channel releases to later senders):
// a coarser relation can miss a race, it cannot invent one.

type vclock []uint32

func (v vclock) get(i int) uint32 {
	if i < len(v) {
		return v[i]
	}
	return 0
}

func vcJoin(a, b vclock) vclock {
	if len(b) > len(a) {
		n := make(vclock, len(b))
		copy(n, a)
		a = n
	}
	for i, x := range b {
		if x > a[i] {
			a[i] = x
		}
	}
	return a
}

func vcCopy(a vclock) vclock { return append(vclock(nil), a...) }

type rAccess struct {
	g    int
	clk  uint32
	ins  ssa.Instruction
	fn   *ssa.Function
	name string
}

type rShadow struct {
	w     rAccess
	hasW  bool
	reads []rAccess
}

type rLoc struct {
	c   *Cell
	off int
}

type raceState struct {
	shadow  map[rLoc]*rShadow
	sync    map[interface{}]vclock
	harness map[*ssa.Function]bool
}

func (in *Interp) raceInit() {
	if !in.cfg.Race {
		return
	}
	in.race = &raceState{shadow: map[rLoc]*rShadow{}, sync: map[interface{}]vclock{}, harness: map[*ssa.Function]bool{}}
	in.co.coros[0].vc = vclock{1}
}

func (in *Interp) raceVC() vclock {
	c := in.co.current
	for len(c.vc) <= c.id {
		c.vc = append(c.vc, 0)
	}
	if c.vc[c.id] == 0 {
		c.vc[c.id] = 1
	}
	return c.vc
}

// raceSpawn: the go statement happens before everything the new goroutine does.
func (in *Interp) raceSpawn(child *coro) {
	if in.race == nil {
		return
	}
	p := in.raceVC()
	child.vc = vcCopy(p)
	for len(child.vc) <= child.id {
		child.vc = append(child.vc, 0)
	}
	child.vc[child.id] = 1
	in.co.current.vc[in.co.current.id]++
}

func (in *Interp) raceAcquire(key interface{}) {
	if in.race == nil {
		return
	}
	if v, ok := in.race.sync[key]; ok {
		c := in.co.current
		c.vc = vcJoin(in.raceVC(), v)
	}
}

func (in *Interp) raceAcquireVC(v vclock) {
	if in.race == nil || v == nil {
		return
	}
	c := in.co.current
	c.vc = vcJoin(in.raceVC(), v)
}

func (in *Interp) raceRelease(key interface{}) {
	if in.race == nil {
		return
	}
	cur := in.raceVC()
	in.race.sync[key] = vcJoin(vcCopy(in.race.sync[key]), cur)
	in.co.current.vc[in.co.current.id]++
}

// raceSnapshot releases into a fresh clock (a message in flight).
func (in *Interp) raceSnapshot() vclock {
	if in.race == nil {
		return nil
	}
	v := vcCopy(in.raceVC())
	in.co.current.vc[in.co.current.id]++
	return v
}

type syncKey struct {
	kind string
	c    *Cell
	off  int
}

func cellKey(kind string, v Value) interface{} {
	if p, ok := v.(PtrV); ok && p.C != nil {
		return syncKey{kind, p.C, p.Off}
	}
	return syncKey{kind: kind}
}

func (in *Interp) isHarnessFn(fn *ssa.Function) bool {
	if fn == nil {
		return true
	}
	if h, ok := in.race.harness[fn]; ok {
		return h
	}
	h := false
	f := fn
	for f.Parent() != nil {
		f = f.Parent()
	}
	if f.Pos().IsValid() {
		h = strings.Contains(in.prog.Fset.Position(f.Pos()).Filename, "zz_verif")
	} else if f.Synthetic != "" && f.Pkg == nil {
		h = false
	}
	in.race.harness[fn] = h
	return h
}

// raceAccess records a load (write=false) or store of a value of type t through p by the
// instruction being executed in fr.
func (in *Interp) raceAccess(fr *frame, p PtrV, t types.Type, write bool) {
	if in.race == nil || p.C == nil || fr == nil || len(in.co.coros) < 2 {
		return
	}
	if in.isHarnessFn(fr.fn) {
		return
	}
	in.raceTouch(fr, p, t, write)
}

func (in *Interp) raceTouch(fr *frame, p PtrV, t types.Type, write bool) {
	c := p.C
	switch c.kind {
	case cFlat:
		n := sizeof(t)
		off := p.Off
		if p.Sym != nil {
			n += (p.Sym.n - 1) * p.Sym.stride
		}
		in.raceBytes(fr, c, off, n, write)
	case cKids:
		switch u := t.Underlying().(type) {
		case *types.Struct:
			if len(c.Kids) == u.NumFields() {
				for i, k := range c.Kids {
					in.raceTouch(fr, PtrV{C: k}, u.Field(i).Type(), write)
				}
			}
		case *types.Array:
			for i := 0; i < int(u.Len()) && p.Off+i < len(c.Kids); i++ {
				in.raceTouch(fr, PtrV{C: c.Kids[p.Off+i]}, u.Elem(), write)
			}
		default:
			in.raceOne(fr, rLoc{c, 0}, write)
		}
	default:
		in.raceOne(fr, rLoc{c, 0}, write)
	}
}

func (in *Interp) raceBytes(fr *frame, c *Cell, off, n int, write bool) {
	if in.race == nil || c == nil || fr == nil || len(in.co.coros) < 2 {
		return
	}
	for i := 0; i < n; i++ {
		in.raceOne(fr, rLoc{c, off + i}, write)
	}
}

// raceSlice records an access to the elements [0,n) of a slice by a builtin (copy, append, conversion).
func (in *Interp) raceSlice(fr *frame, s SliceV, esz, n int, write bool) {
	if in.race == nil || s.C == nil || fr == nil || len(in.co.coros) < 2 || in.isHarnessFn(fr.fn) {
		return
	}
	if s.C.kind == cFlat {
		in.raceBytes(fr, s.C, s.Off, n*esz, write)
		return
	}
	for i := 0; i < n && s.Off+i < len(s.C.Kids); i++ {
		in.raceOne(fr, rLoc{s.C.Kids[s.Off+i], 0}, write)
	}
}

func (in *Interp) raceOne(fr *frame, loc rLoc, write bool) {
	me := in.co.current
	vc := in.raceVC()
	sh := in.race.shadow[loc]
	if sh == nil {
		sh = &rShadow{}
		in.race.shadow[loc] = sh
	}
	cur := rAccess{g: me.id, clk: vc[me.id], ins: fr.curInstr, fn: fr.fn, name: me.name}
	if sh.hasW && sh.w.g != me.id && sh.w.clk > vc.get(sh.w.g) {
		in.raceReport(loc, cur, write, sh.w, true)
	}
	if write {
		for _, r := range sh.reads {
			if r.g != me.id && r.clk > vc.get(r.g) {
				in.raceReport(loc, cur, true, r, false)
			}
		}
		sh.w, sh.hasW, sh.reads = cur, true, sh.reads[:0]
		return
	}
	for i := range sh.reads {
		if sh.reads[i].g == me.id {
			sh.reads[i] = cur
			return
		}
	}
	sh.reads = append(sh.reads, cur)
}

func (in *Interp) raceWhere(a rAccess) string {
	pos := ""
	if a.ins != nil && a.ins.Pos().IsValid() {
		p := in.prog.Fset.Position(a.ins.Pos())
		pos = fmt.Sprintf("%s:%d", shortFile(p.Filename), p.Line)
	}
	fn := "?"
	if a.fn != nil {
		fn = a.fn.String()
	}
	return fmt.Sprintf("%s %s (goroutine %d %s)", pos, fn, a.g, a.name)
}

func (in *Interp) raceReport(loc rLoc, cur rAccess, curWrite bool, prev rAccess, prevWrite bool) {
	kind := func(w bool) string {
		if w {
			return "write"
		}
		return "read"
	}
	what := "cell"
	if loc.c != nil {
		what = fmt.Sprintf("%v", loc.c.T)
		if loc.c.name != "" {
			what = loc.c.name + " " + what
		}
	}
	msg := fmt.Sprintf("%s at %s is not ordered with the earlier %s at %s; location: byte %d of %s", kind(curWrite), in.raceWhere(cur), kind(prevWrite), in.raceWhere(prev), loc.off, what)
	in.out.Site = in.raceWhere(cur) + " <> " + in.raceWhere(prev)
	in.implicitViolationAt("data-race", msg)
}

// raceMap: a map is one location (as for the Go race detector).
func (in *Interp) raceMap(fr *frame, m *MapV, write bool) {
	if in.race == nil || m == nil || fr == nil || len(in.co.coros) < 2 || in.isHarnessFn(fr.fn) {
		return
	}
	in.raceOne(fr, rLoc{nil, m.id}, write)
}

func elemSize(st types.Type) int {
	et := st.Underlying().(*types.Slice).Elem()
	if isFlat(et) {
		return sizeof(et)
	}
	return 1
}

func (in *Interp) raceAppend(fr *frame, s SliceV, more Value, st types.Type) {
	es := elemSize(st)
	n := 0
	if m, ok := more.(SliceV); ok {
		n = m.Len
		in.raceSlice(fr, m, es, n, false)
	} else if m, ok := more.(StrV); ok {
		n = len(m.B)
	}
	if n == 0 || s.C == nil {
		return
	}
	if s.Len+n <= s.Cap {
		tail := s
		if s.C.kind == cFlat {
			tail.Off += s.Len * es
		} else {
			tail.Off += s.Len
		}
		in.raceSlice(fr, tail, es, n, true)
		return
	}
	in.raceSlice(fr, s, es, s.Len, false) // growth copies the old elements
}

func (in *Interp) raceCopy(fr *frame, dst SliceV, src Value, dt types.Type) {
	es := elemSize(dt)
	n := dst.Len
	if m, ok := src.(SliceV); ok {
		if m.Len < n {
			n = m.Len
		}
		in.raceSlice(fr, m, es, n, false)
	} else if m, ok := src.(StrV); ok && len(m.B) < n {
		n = len(m.B)
	}
	in.raceSlice(fr, dst, es, n, true)
}
