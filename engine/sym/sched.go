package sym

import (
	"fmt"
	"go/types"
	"runtime"
	"strings"

	"golang.org/x/tools/go/ssa"
)

// Cooperative coroutines: every interpreted goroutine is a real goroutine, but
// exactly one runs at a time; control changes hands only at blocking or
// environment operations (yield points).

type coro struct {
	id      int
	name    string
	resume  chan struct{}
	done    bool
	ready   func() bool // nil = runnable
	cur     *frame
	started bool
}

type sched struct {
	coros    []*coro
	current  *coro
	abortVal interface{}
	dead     bool
	policy   string // "first" | "last" | "rr" | "free"
	yields   int
	freeMax  int
}

func (in *Interp) initSched() {
	main := &coro{id: 0, name: "main", resume: make(chan struct{}, 1), started: true}
	in.co = &sched{coros: []*coro{main}, current: main, policy: "first"}
}

func (in *Interp) spawn(f func(), name string) *coro {
	s := in.co
	c := &coro{id: len(s.coros), name: name, resume: make(chan struct{}, 1)}
	s.coros = append(s.coros, c)
	go func() {
		<-c.resume
		if s.dead {
			return
		}
		defer func() {
			if r := recover(); r != nil {
				if s.abortVal == nil {
					s.abortVal = r
				}
			}
			c.done = true
			in.switchAway(c)
		}()
		in.cur = nil
		c.started = true
		f()
	}()
	return c
}

// switchAway hands control to another coroutine after c finished (never returns to c).
func (in *Interp) switchAway(c *coro) {
	s := in.co
	if s.abortVal != nil {
		m := s.coros[0]
		s.current = m
		m.resume <- struct{}{}
		return
	}
	n := in.pickNext(c)
	if n == nil {
		// nothing runnable: wake main so that it can detect the deadlock
		n = s.coros[0]
		if n.done {
			return
		}
		s.abortVal = abort{kind: "deadlock", msg: "all goroutines are blocked: " + in.describeCoros()}
	}
	s.current = n
	n.resume <- struct{}{}
}

func (in *Interp) describeCoros() string {
	r := ""
	for _, c := range in.co.coros {
		st := "runnable"
		if c.done {
			st = "done"
		} else if c.ready != nil {
			st = "blocked"
		}
		r += fmt.Sprintf("[%d %s %s]", c.id, c.name, st)
	}
	return r
}

func (in *Interp) runnable(c *coro) bool {
	if c.done {
		return false
	}
	return c.ready == nil || c.ready()
}

// pickNext chooses the coroutine to run after cur yields (cur excluded unless it is the only one).
func (in *Interp) pickNext(cur *coro) *coro {
	s := in.co
	var cand []*coro
	for _, c := range s.coros {
		if c != cur && in.runnable(c) {
			cand = append(cand, c)
		}
	}
	if len(cand) == 0 {
		return nil
	}
	switch strings.TrimPrefix(s.policy, "sticky-") {
	case "last":
		return cand[len(cand)-1]
	case "rr":
		for _, c := range cand {
			if c.id > cur.id {
				return c
			}
		}
		return cand[0]
	case "free":
		if s.yields < s.freeMax {
			s.yields++
			return cand[in.choice(len(cand), "sched")]
		}
		return cand[0]
	}
	return cand[0]
}

// yield lets other runnable coroutines run; returns when the current one is resumed.
// If block is non-nil the current coroutine is not runnable until block() holds.
func (in *Interp) yieldUntil(ready func() bool) {
	s := in.co
	me := s.current
	for {
		if ready != nil && ready() {
			me.ready = nil
			return
		}
		me.ready = ready
		n := in.pickNext(me)
		if n == nil {
			if ready == nil {
				return // nobody else to run
			}
			in.out.Msg = "deadlock: " + in.describeCoros()
			panic(abort{kind: "deadlock", msg: in.out.Msg})
		}
		me.cur = in.cur
		s.current = n
		n.resume <- struct{}{}
		<-me.resume
		if s.dead {
			runtime.Goexit()
		}
		in.cur = me.cur
		if s.abortVal != nil && me.id == 0 {
			v := s.abortVal
			s.abortVal = nil
			panic(v)
		}
		if ready == nil {
			me.ready = nil
			return
		}
	}
}

// Yield is a scheduling point without blocking. Under a sticky policy the running
// goroutine keeps the processor until it blocks.
func (in *Interp) Yield() {
	if len(in.co.coros) > 1 && !strings.HasPrefix(in.co.policy, "sticky-") {
		in.yieldUntil(nil)
	}
}

func (in *Interp) wake() {}

func (in *Interp) killCoros() {
	s := in.co
	s.dead = true
	for _, c := range s.coros[1:] {
		if !c.done {
			select {
			case c.resume <- struct{}{}:
			default:
			}
		}
	}
}

// liveCoros returns the names of coroutines (other than main) that have not finished.
func (in *Interp) liveCoros() []string {
	var r []string
	for _, c := range in.co.coros[1:] {
		if !c.done {
			r = append(r, c.name)
		}
	}
	return r
}

// ---------------------------------------------------------------- channels

func (in *Interp) chanSend(ch *ChanV, v Value) {
	if ch == nil {
		in.yieldUntil(func() bool { return false })
	}
	if ch.closed {
		panic(goPanic{msg: "send on closed channel", site: in.site()})
	}
	if ch.cap > 0 {
		in.yieldUntil(func() bool { return len(ch.buf) < ch.cap || ch.closed })
		if ch.closed {
			panic(goPanic{msg: "send on closed channel", site: in.site()})
		}
		ch.buf = append(ch.buf, v)
		return
	}
	// unbuffered: hand over and wait until taken
	ch.sendq = append(ch.sendq, v)
	n := len(ch.sendq)
	_ = n
	taken := false
	idx := &taken
	ch.takers = append(ch.takers, idx)
	in.yieldUntil(func() bool { return *idx })
}

func (in *Interp) chanRecv(ch *ChanV) (Value, bool) {
	if ch == nil {
		in.yieldUntil(func() bool { return false })
	}
	in.yieldUntil(func() bool { return len(ch.buf) > 0 || len(ch.sendq) > 0 || ch.closed })
	return in.chanTake(ch)
}

func (in *Interp) chanReadyRecv(ch *ChanV) bool {
	return ch != nil && (len(ch.buf) > 0 || len(ch.sendq) > 0 || ch.closed)
}

func (in *Interp) chanTake(ch *ChanV) (Value, bool) {
	if len(ch.buf) > 0 {
		v := ch.buf[0]
		ch.buf = ch.buf[1:]
		return v, true
	}
	if len(ch.sendq) > 0 {
		v := ch.sendq[0]
		ch.sendq = ch.sendq[1:]
		*ch.takers[0] = true
		ch.takers = ch.takers[1:]
		return v, true
	}
	return in.zero(ch.et), false
}

func (in *Interp) selectOp(fr *frame, ins *ssa.Select) Value {
	st := in.st
	type sc struct {
		ch   *ChanV
		send bool
		val  Value
	}
	var cases []sc
	for _, s := range ins.States {
		c := sc{ch: fr.get(s.Chan).(*ChanV), send: s.Dir == types.SendOnly}
		if c.send {
			c.val = fr.get(s.Send)
		}
		cases = append(cases, c)
	}
	readyIdx := func() []int {
		var r []int
		for i, c := range cases {
			if c.ch == nil {
				continue
			}
			if c.send {
				if c.ch.closed || (c.ch.cap > 0 && len(c.ch.buf) < c.ch.cap) {
					r = append(r, i)
				}
			} else if in.chanReadyRecv(c.ch) {
				r = append(r, i)
			}
		}
		return r
	}
	if ins.Blocking {
		in.yieldUntil(func() bool { return len(readyIdx()) > 0 })
	}
	rd := readyIdx()
	res := TupleV{st.Const(^uint64(0), 64), st.False}
	recvPos := map[int]int{}
	for i, s := range ins.States {
		if s.Dir == types.RecvOnly {
			recvPos[i] = len(res)
			res = append(res, in.zero(s.Chan.Type().Underlying().(*types.Chan).Elem()))
		}
	}
	if len(rd) == 0 {
		return res
	}
	k := rd[in.choice(len(rd), "select")]
	res[0] = st.Const(uint64(k), 64)
	c := cases[k]
	if c.send {
		if c.ch.closed {
			panic(goPanic{msg: "send on closed channel", site: in.site()})
		}
		c.ch.buf = append(c.ch.buf, c.val)
		return res
	}
	v, ok := in.chanTake(c.ch)
	res[1] = st.Bool(ok)
	res[recvPos[k]] = v
	return res
}
