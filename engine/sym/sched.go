package sym

import (
	"fmt"
	"go/types"
	"runtime"
	"strings"

	"golang.org/x/tools/go/ssa"
)

// Cooperative coroutines: every interpreted goroutine is a real goroutine, but
// exactly one runs at a time; control changes hands only at blocking or
// environment operations (yield points).

type coro struct {
	id      int
	name    string
	resume  chan struct{}
	done    bool
	ready   func() bool // nil = runnable
	cur     *frame
	started bool
	vc      vclock // race.go
	// verifWait bookkeeping: parked inside verifWait, and the progress count it last polled at
	inWait   bool
	polledAt int
	waitDL   int64 // deadline (unix ms) of the operation it polls for; 0: none
}

type sched struct {
	coros    []*coro
	current  *coro
	abortVal interface{}
	dead     bool
	policy   string // "first" | "last" | "rr" | "free"
	yields   int
	freeMax  int
	prefer   *coro // the next pick, once (verifWait hands over to somebody who is not merely polling)
	progress int // bumped whenever a goroutine does something other than poll in verifWait
}

func (in *Interp) initSched() {
	main := &coro{id: 0, name: "main", resume: make(chan struct{}, 1), started: true}
	in.co = &sched{coros: []*coro{main}, current: main, policy: "first"}
}

func (in *Interp) spawn(f func(), name string) *coro {
	s := in.co
	c := &coro{id: len(s.coros), name: name, resume: make(chan struct{}, 1)}
	s.coros = append(s.coros, c)
	in.raceSpawn(c)
	go func() {
		<-c.resume
		if s.dead {
			return
		}
		defer func() {
			if r := recover(); r != nil {
				if s.abortVal == nil {
					s.abortVal = r
				}
			}
			c.done = true
			in.switchAway(c)
		}()
		in.cur = nil
		c.started = true
		f()
	}()
	return c
}

// switchAway hands control to another coroutine after c finished (never returns to c).
func (in *Interp) switchAway(c *coro) {
	s := in.co
	s.progress++
	if s.abortVal != nil {
		m := s.coros[0]
		s.current = m
		m.resume <- struct{}{}
		return
	}
	n := in.pickNext(c)
	for n == nil && in.ctxFireNextDeadline() {
		n = in.pickNext(c)
	}
	if n == nil {
		// nothing runnable: wake main so that it can detect the deadlock
		n = s.coros[0]
		if n.done {
			return
		}
		s.abortVal = abort{kind: "deadlock", msg: "all goroutines are blocked: " + in.describeCoros()}
	}
	s.current = n
	n.resume <- struct{}{}
}

func (in *Interp) describeCoros() string {
	r := ""
	for _, c := range in.co.coros {
		st := "runnable"
		if c.done {
			st = "done"
		} else if c.ready != nil {
			st = "blocked"
		}
		r += fmt.Sprintf("[%d %s %s]", c.id, c.name, st)
	}
	return r
}

func (in *Interp) runnable(c *coro) bool {
	if c.done {
		return false
	}
	return c.ready == nil || c.ready()
}

// pickNext chooses the coroutine to run after cur yields (cur excluded unless it is the only one).
func (in *Interp) pickNext(cur *coro) *coro {
	s := in.co
	if p := s.prefer; p != nil {
		s.prefer = nil
		if p != cur && in.runnable(p) {
			return p
		}
	}
	var cand []*coro
	for _, c := range s.coros {
		if c != cur && in.runnable(c) {
			cand = append(cand, c)
		}
	}
	if len(cand) == 0 {
		return nil
	}
	switch strings.TrimPrefix(s.policy, "sticky-") {
	case "last":
		return cand[len(cand)-1]
	case "rr":
		for _, c := range cand {
			if c.id > cur.id {
				return c
			}
		}
		return cand[0]
	case "free":
		if s.yields < s.freeMax {
			s.yields++
			return cand[in.choice(len(cand), "sched")]
		}
		return cand[0]
	}
	return cand[0]
}

// yield lets other runnable coroutines run; returns when the current one is resumed.
// If block is non-nil the current coroutine is not runnable until block() holds.
func (in *Interp) yieldUntil(ready func() bool) {
	s := in.co
	me := s.current
	if ready != nil {
		s.progress++
	}
	for {
		if ready != nil && ready() {
			me.ready = nil
			return
		}
		me.ready = ready
		n := in.pickNext(me)
		if n == nil {
			if ready == nil {
				return // nobody else to run
			}
			if in.ctxFireNextDeadline() {
				continue // everybody was blocked: time passes until the next context deadline
			}
			in.out.Msg = "deadlock: " + in.describeCoros()
			panic(abort{kind: "deadlock", msg: in.out.Msg})
		}
		me.cur = in.cur
		s.current = n
		n.resume <- struct{}{}
		<-me.resume
		if s.dead {
			runtime.Goexit()
		}
		in.cur = me.cur
		if s.abortVal != nil && me.id == 0 {
			v := s.abortVal
			s.abortVal = nil
			panic(v)
		}
		if ready == nil {
			me.ready = nil
			return
		}
	}
}

// Yield is a scheduling point without blocking. Under a sticky policy the running
// goroutine keeps the processor until it blocks.
func (in *Interp) Yield() {
	in.co.progress++
	if len(in.co.coros) > 1 && !strings.HasPrefix(in.co.policy, "sticky-") {
		in.yieldUntil(nil)
	}
}

func (in *Interp) wake() {}

func (in *Interp) killCoros() {
	s := in.co
	s.dead = true
	for _, c := range s.coros[1:] {
		if !c.done {
			select {
			case c.resume <- struct{}{}:
			default:
			}
		}
	}
}

// liveCoros returns the names of coroutines (other than main) that have not finished.
func (in *Interp) liveCoros() []string {
	var r []string
	for _, c := range in.co.coros[1:] {
		if !c.done {
			r = append(r, c.name)
		}
	}
	return r
}

// ---------------------------------------------------------------- channels
//
// Rendezvous semantics as in the Go runtime: a blocked operation registers a waiter on the
// channel; the counterpart completes it directly. A select registers one waiter per case,
// all sharing a group, and only one of them can fire.

type selGroup struct {
	vc    vclock // what the completing counterpart released (race.go)
	fired bool
	index int   // case that fired
	val   Value // received value
	ok    bool
}

type waiter struct {
	vc    vclock // the registering goroutine's clock at registration
	g     *selGroup
	index int
	val   Value // value to send (send waiters)
}

func (in *Interp) liveWaiter(q *[]*waiter) *waiter {
	for len(*q) > 0 {
		w := (*q)[0]
		*q = (*q)[1:]
		if !w.g.fired {
			return w
		}
	}
	return nil
}

func hasLive(q []*waiter) bool {
	for _, w := range q {
		if !w.g.fired {
			return true
		}
	}
	return false
}

// trySend completes a send without blocking if possible.
func (in *Interp) trySend(ch *ChanV, v Value) bool {
	if ch.closed {
		panic(goPanic{msg: "send on closed channel", site: in.site()})
	}
	if w := in.liveWaiter(&ch.recvq); w != nil {
		w.g.fired, w.g.index, w.g.val, w.g.ok = true, w.index, v, true
		w.g.vc = in.raceSnapshot()
		if ch.cap == 0 {
			in.raceAcquireVC(w.vc) // the receive began before the send completes
		}
		return true
	}
	if len(ch.buf) < ch.cap {
		ch.buf = append(ch.buf, v)
		if in.race != nil {
			in.raceAcquireVC(ch.recvVC) // a slot was freed by an earlier receive (coarser than the k-th/k+C-th rule)
			ch.bufVC = append(ch.bufVC, in.raceSnapshot())
		}
		return true
	}
	return false
}

// tryRecv completes a receive without blocking if possible.
func (in *Interp) tryRecv(ch *ChanV) (Value, bool, bool) {
	if len(ch.buf) > 0 {
		v := ch.buf[0]
		ch.buf = ch.buf[1:]
		if in.race != nil {
			if len(ch.bufVC) > 0 {
				in.raceAcquireVC(ch.bufVC[0])
				ch.bufVC = ch.bufVC[1:]
			}
			ch.recvVC = vcJoin(vcCopy(ch.recvVC), in.raceSnapshot())
		}
		// a blocked sender can now move its value into the buffer
		if w := in.liveWaiter(&ch.sendw); w != nil {
			ch.buf = append(ch.buf, w.val)
			w.g.fired, w.g.index = true, w.index
			if in.race != nil {
				ch.bufVC = append(ch.bufVC, w.vc)
				w.g.vc = vcCopy(ch.recvVC)
			}
		}
		return v, true, true
	}
	if w := in.liveWaiter(&ch.sendw); w != nil {
		w.g.fired, w.g.index = true, w.index
		in.raceAcquireVC(w.vc)
		w.g.vc = in.raceSnapshot()
		return w.val, true, true
	}
	if ch.closed {
		in.raceAcquireVC(ch.closeVC)
		return in.zero(ch.et), false, true
	}
	return nil, false, false
}

func (in *Interp) chanSend(ch *ChanV, v Value) {
	if ch == nil {
		in.yieldUntil(func() bool { return false })
	}
	if in.trySend(ch, v) {
		return
	}
	g := &selGroup{}
	ch.sendw = append(ch.sendw, &waiter{g: g, val: v, vc: in.raceSnapshot()})
	in.yieldUntil(func() bool { return g.fired || ch.closed })
	in.raceAcquireVC(g.vc)
	if !g.fired {
		g.fired = true
		panic(goPanic{msg: "send on closed channel", site: in.site()})
	}
}

func (in *Interp) chanRecv(ch *ChanV) (Value, bool) {
	if ch == nil {
		in.yieldUntil(func() bool { return false })
	}
	if v, ok, done := in.tryRecv(ch); done {
		return v, ok
	}
	g := &selGroup{}
	ch.recvq = append(ch.recvq, &waiter{g: g, vc: in.raceSnapshot()})
	in.yieldUntil(func() bool { return g.fired || ch.closed })
	if g.fired {
		in.raceAcquireVC(g.vc)
		return g.val, g.ok
	}
	g.fired = true
	in.raceAcquireVC(ch.closeVC)
	return in.zero(ch.et), false
}

func (in *Interp) selectOp(fr *frame, ins *ssa.Select) Value {
	st := in.st
	type sc struct {
		ch   *ChanV
		send bool
		val  Value
	}
	var cases []sc
	for _, s := range ins.States {
		c := sc{ch: fr.get(s.Chan).(*ChanV), send: s.Dir == types.SendOnly}
		if c.send {
			c.val = fr.get(s.Send)
		}
		cases = append(cases, c)
	}
	res := TupleV{st.Const(^uint64(0), 64), st.False}
	recvPos := map[int]int{}
	for i, s := range ins.States {
		if s.Dir == types.RecvOnly {
			recvPos[i] = len(res)
			res = append(res, in.zero(s.Chan.Type().Underlying().(*types.Chan).Elem()))
		}
	}
	readyIdx := func() []int {
		var r []int
		for i, c := range cases {
			if c.ch == nil {
				continue
			}
			if c.send {
				if c.ch.closed || hasLive(c.ch.recvq) || len(c.ch.buf) < c.ch.cap {
					r = append(r, i)
				}
			} else if len(c.ch.buf) > 0 || hasLive(c.ch.sendw) || c.ch.closed {
				r = append(r, i)
			}
		}
		return r
	}
	fire := func(k int) Value {
		res[0] = st.Const(uint64(k), 64)
		c := cases[k]
		if c.send {
			if !in.trySend(c.ch, c.val) {
				panic("select: send case not ready")
			}
			return res
		}
		v, ok, done := in.tryRecv(c.ch)
		if !done {
			panic("select: recv case not ready")
		}
		res[1] = st.Bool(ok)
		res[recvPos[k]] = v
		return res
	}
	if rd := readyIdx(); len(rd) > 0 {
		return fire(rd[in.choice(len(rd), "select")])
	}
	if !ins.Blocking {
		return res
	}
	// block: register on every channel
	g := &selGroup{}
	regVC := in.raceSnapshot()
	for i, c := range cases {
		if c.ch == nil {
			continue
		}
		if c.send {
			c.ch.sendw = append(c.ch.sendw, &waiter{g: g, index: i, val: c.val, vc: regVC})
		} else {
			c.ch.recvq = append(c.ch.recvq, &waiter{g: g, index: i, vc: regVC})
		}
	}
	anyClosed := func() bool {
		for _, c := range cases {
			if c.ch != nil && c.ch.closed {
				return true
			}
		}
		return false
	}
	in.yieldUntil(func() bool { return g.fired || anyClosed() })
	if g.fired {
		in.raceAcquireVC(g.vc)
		res[0] = st.Const(uint64(g.index), 64)
		if !cases[g.index].send {
			res[1] = st.Bool(g.ok)
			res[recvPos[g.index]] = g.val
		}
		return res
	}
	g.fired = true // withdraw the registrations
	rd := readyIdx()
	if len(rd) == 0 {
		panic("select: woke without a ready case")
	}
	return fire(rd[in.choice(len(rd), "select")])
}
