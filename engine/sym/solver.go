package sym

import (
	"bufio"
	"fmt"
	"io"
	"math/big"
	"os"
	"os/exec"
	"strconv"
	"strings"
	"time"
)

type Result int

const (
	Unsat Result = iota
	Sat
	Unknown
)

func (r Result) String() string { return [...]string{"unsat", "sat", "unknown"}[r] }

// Solver is one long-lived SMT solver process speaking SMT-LIB2 on stdin.
type Solver struct {
	Kind    string // z3 | z3-new | cvc5
	cmd     *exec.Cmd
	in      io.WriteCloser
	out     *bufio.Reader
	defined map[int]bool
	decl    map[string]bool
	depth   int
	Queries int
	Time    time.Duration
	Errors  []string
	// Transcript of the current path (declarations+assertions), kept so that a
	// final query can be re-issued to another solver.
	Script    strings.Builder
	KeepTrace bool
	timeoutMs int
	store     *Store
	IntMode   bool
	encErr    bool
	storeUses int
	dead      bool
	paths     int // paths served by the current process
}

func NewSolver(kind string, timeoutMs int) (*Solver, error) {
	keep := os.Getenv("GOSYM_DUMP") != ""
	s := &Solver{KeepTrace: keep, Kind: kind, defined: map[int]bool{}, decl: map[string]bool{}, timeoutMs: timeoutMs}
	if err := s.start(); err != nil {
		return nil, err
	}
	return s, nil
}

// start launches the solver process (also used to replace one that has served many paths:
// z3 does not give memory back across thousands of push/pop rounds).
func (s *Solver) start() error {
	var cmd *exec.Cmd
	switch s.Kind {
	case "z3":
		cmd = exec.Command("/usr/bin/z3", "-in", "-smt2", "-memory:3000")
	case "z3-new":
		cmd = exec.Command("z3-new", "-in", "-smt2", "-memory:3000")
	case "cvc5":
		cmd = exec.Command("cvc5", "--incremental", "--lang", "smt2", "--produce-models", fmt.Sprintf("--tlimit-per=%d", s.timeoutMs))
	default:
		return fmt.Errorf("unknown solver %q", s.Kind)
	}
	in, err := cmd.StdinPipe()
	if err != nil {
		return err
	}
	out, err := cmd.StdoutPipe()
	if err != nil {
		return err
	}
	cmd.Stderr = cmd.Stdout
	if err := cmd.Start(); err != nil {
		return err
	}
	s.cmd, s.in, s.out = cmd, in, bufio.NewReaderSize(out, 1<<16)
	s.dead = false
	s.paths = 0
	if s.Kind == "cvc5" {
		s.send("(set-logic ALL)")
	} else {
		s.send("(set-option :produce-models true)")
		s.send(fmt.Sprintf("(set-option :timeout %d)", s.timeoutMs))
	}
	return nil
}

func (s *Solver) Close() {
	if s.dead {
		return
	}
	s.dead = true
	s.in.Close()
	done := make(chan struct{})
	go func() { s.cmd.Wait(); close(done) }()
	select {
	case <-done:
	case <-time.After(2 * time.Second):
		s.cmd.Process.Kill()
	}
}

func (s *Solver) send(line string) {
	if s.KeepTrace {
		s.Script.WriteString(line)
		s.Script.WriteByte('\n')
	}
	io.WriteString(s.in, line)
	io.WriteString(s.in, "\n")
}

func (s *Solver) readLine() string {
	l, err := s.out.ReadString('\n')
	if err != nil {
		s.Errors = append(s.Errors, "solver died: "+err.Error())
		s.dead = true
		return "(error \"solver died\")"
	}
	return strings.TrimSpace(l)
}

// BeginPath opens a fresh scope for one path.
func (s *Solver) BeginPath() {
	s.Script.Reset()
	s.send("(push 1)")
	s.depth = 1
}

// EndPath discards everything asserted for the path.
func (s *Solver) EndPath() {
	s.send(fmt.Sprintf("(pop %d)", s.depth))
	s.depth = 0
	s.paths++
	if s.paths >= 1000 && !s.dead {
		// a fresh process: bounded memory however long the exploration runs
		s.Close()
		if err := s.start(); err != nil {
			s.Errors = append(s.Errors, "solver restart: "+err.Error())
			s.dead = true
		}
	}
	s.defined = map[int]bool{}
	s.decl = map[string]bool{}
	s.encErr = false
}

func sortOf(w int) string {
	if w == 0 {
		return "Bool"
	}
	return "(_ BitVec " + strconv.Itoa(w) + ")"
}

func constLit(v uint64, w int) string {
	if w == 0 {
		if v != 0 {
			return "true"
		}
		return "false"
	}
	if w%4 == 0 {
		return fmt.Sprintf("#x%0*x", w/4, v)
	}
	return fmt.Sprintf("#b%0*b", w, v)
}

func quoteName(n string) string { return "|" + n + "|" }

// ref returns the SMT name of a term, emitting definitions as needed.
func (s *Solver) ref(t *Term) string {
	if s.IntMode {
		return s.refInt(t)
	}
	switch t.Op {
	case OConst:
		return constLit(t.Val, t.W)
	case OVar:
		if !s.decl[t.Name] {
			s.decl[t.Name] = true
			s.send("(declare-const " + quoteName(t.Name) + " " + sortOf(t.W) + ")")
		}
		return quoteName(t.Name)
	}
	name := "t" + strconv.Itoa(t.ID)
	if s.defined[t.ID] {
		return name
	}
	args := make([]string, len(t.Args))
	for i, a := range t.Args {
		args[i] = s.ref(a)
	}
	var body string
	switch t.Op {
	case OExtract:
		body = fmt.Sprintf("((_ extract %d %d) %s)", t.Hi, t.Val, args[0])
	case OSext:
		body = fmt.Sprintf("((_ sign_extend %d) %s)", t.W-t.Args[0].W, args[0])
	case OUF:
		fn := quoteName(t.Name)
		if !s.decl["uf:"+t.Name] {
			s.decl["uf:"+t.Name] = true
			var as []string
			for _, a := range t.Args {
				as = append(as, sortOf(a.W))
			}
			s.send("(declare-fun " + fn + " (" + strings.Join(as, " ") + ") " + sortOf(t.W) + ")")
		}
		if len(args) == 0 {
			body = fn
		} else {
			body = "(" + fn + " " + strings.Join(args, " ") + ")"
		}
	default:
		body = "(" + opNames[t.Op] + " " + strings.Join(args, " ") + ")"
	}
	s.send("(define-fun " + name + " () " + sortOf(t.W) + " " + body + ")")
	s.defined[t.ID] = true
	return name
}

// Assert adds t to the path scope.
func (s *Solver) Assert(t *Term) {
	nerr := len(s.Errors)
	r := s.ref(t)
	if len(s.Errors) > nerr {
		s.encErr = true
	}
	s.send("(assert " + r + ")")
}

// Check decides path-condition ∧ extra. When wantModel is set and the result is
// sat, the values of vars are returned.
func (s *Solver) Check(extra *Term, wantModel bool, vars []*Term) (Result, map[string]uint64) {
	start := time.Now()
	defer func() { s.Time += time.Since(start); s.Queries++ }()
	if s.dead {
		return Unknown, nil
	}
	nerr := len(s.Errors)
	var r string
	if extra != nil {
		r = s.ref(extra)
	}
	for _, v := range vars {
		s.ref(v)
	}
	if len(s.Errors) > nerr || s.encErr {
		s.encErr = true
		return Unknown, nil
	}
	s.send("(push 1)")
	if extra != nil {
		s.send("(assert " + r + ")")
	}
	s.send("(check-sat)")
	res := s.readResult()
	if res == Unknown && s.KeepTrace {
		if d := os.Getenv("GOSYM_DUMP"); d != "" {
			os.WriteFile(fmt.Sprintf("%s/unknown-%d.smt2", d, s.Queries), []byte(s.Script.String()), 0o644)
		}
	}
	var model map[string]uint64
	if res == Sat && wantModel && len(vars) > 0 {
		model = s.getModel(vars)
	}
	s.send("(pop 1)")
	return res, model
}

func (s *Solver) readResult() Result {
	for {
		l := s.readLine()
		switch {
		case l == "sat":
			return Sat
		case l == "unsat":
			return Unsat
		case l == "unknown" || l == "timeout":
			return Unknown
		case strings.HasPrefix(l, "(error"):
			s.Errors = append(s.Errors, l)
			if s.dead {
				return Unknown
			}
			// keep reading: the verdict line follows, but it is not trusted
			res := s.readResultAfterError()
			_ = res
			return Unknown
		case l == "":
			continue
		default:
			s.Errors = append(s.Errors, "unexpected solver output: "+l)
			return Unknown
		}
	}
}

func (s *Solver) readResultAfterError() Result {
	for i := 0; i < 100; i++ {
		l := s.readLine()
		switch l {
		case "sat", "unsat", "unknown", "timeout":
			return Unknown
		}
		if s.dead {
			return Unknown
		}
	}
	return Unknown
}

func (s *Solver) getModel(vars []*Term) map[string]uint64 {
	model := map[string]uint64{}
	// one get-value per chunk to keep lines short
	const chunk = 64
	for i := 0; i < len(vars); i += chunk {
		j := i + chunk
		if j > len(vars) {
			j = len(vars)
		}
		var names []string
		for _, v := range vars[i:j] {
			names = append(names, s.ref(v))
		}
		s.send("(get-value (" + strings.Join(names, " ") + "))")
		txt := s.readSexp()
		parseGetValue(txt, vars[i:j], model)
	}
	return model
}

// readSexp reads one balanced s-expression from the solver.
func (s *Solver) readSexp() string {
	var sb strings.Builder
	depth := 0
	started := false
	inBar := false
	for {
		c, err := s.out.ReadByte()
		if err != nil {
			s.dead = true
			return sb.String()
		}
		sb.WriteByte(c)
		if c == '|' {
			inBar = !inBar
		}
		if inBar {
			continue
		}
		if c == '(' {
			depth++
			started = true
		} else if c == ')' {
			depth--
			if started && depth == 0 {
				return sb.String()
			}
		}
	}
}

func parseGetValue(txt string, vars []*Term, model map[string]uint64) {
	// format: ((name value) (name value) ...) ; values #x.. #b.. true false
	rest := txt
	for _, v := range vars {
		var key string
		if v.Op == OVar {
			key = quoteName(v.Name)
		} else {
			key = "t" + strconv.Itoa(v.ID)
		}
		i := strings.Index(rest, "("+key+" ")
		if i < 0 {
			// z3 may print simple symbols without bars
			if v.Op == OVar {
				i = strings.Index(rest, "("+v.Name+" ")
				key = v.Name
			}
			if i < 0 {
				continue
			}
		}
		val := rest[i+len(key)+2:]
		j := strings.IndexAny(val, ")\n ")
		if j >= 0 && !strings.HasPrefix(val, "(") {
			val = val[:j]
		}
		name := v.Name
		if v.Op != OVar {
			name = key
		}
		switch {
		case strings.HasPrefix(val, "#x"):
			u, _ := strconv.ParseUint(val[2:], 16, 64)
			model[name] = u
		case strings.HasPrefix(val, "#b"):
			u, _ := strconv.ParseUint(val[2:], 2, 64)
			model[name] = u
		case strings.HasPrefix(val, "true"):
			model[name] = 1
		case strings.HasPrefix(val, "false"):
			model[name] = 0
		case len(val) > 0 && val[0] >= '0' && val[0] <= '9':
			bi, ok := new(big.Int).SetString(val, 10)
			if ok {
				model[name] = bi.Uint64()
			}
		case strings.HasPrefix(val, "(_ bv"):
			f := strings.Fields(val[5:])
			u, _ := strconv.ParseUint(f[0], 10, 64)
			model[name] = u
		}
	}
}

// RunScript feeds a complete SMT-LIB script to a one-shot solver and returns
// the verdict of its final check-sat. Used for cross-solver comparison.
func RunScript(kind, script string, timeout time.Duration) (Result, error) {
	var cmd *exec.Cmd
	ms := int(timeout / time.Millisecond)
	switch kind {
	case "z3":
		cmd = exec.Command("/usr/bin/z3", "-in", "-smt2", fmt.Sprintf("-t:%d", ms))
	case "z3-new":
		cmd = exec.Command("z3-new", "-in", "-smt2", fmt.Sprintf("-t:%d", ms))
	case "cvc5":
		cmd = exec.Command("cvc5", "--incremental", "--lang", "smt2", fmt.Sprintf("--tlimit-per=%d", ms))
		script = "(set-logic ALL)\n" + script
	}
	var keep []string
	for _, l := range strings.Split(script, "\n") {
		if strings.HasPrefix(l, "(get-value") {
			continue
		}
		keep = append(keep, l)
	}
	script = strings.Join(keep, "\n") + "\n"
	cmd.Stdin = strings.NewReader(script)
	out, err := cmd.CombinedOutput()
	txt := string(out)
	if strings.Contains(txt, "(error") {
		return Unknown, fmt.Errorf("solver error: %s", txt)
	}
	lines := strings.Fields(txt)
	if len(lines) == 0 {
		return Unknown, err
	}
	switch lines[len(lines)-1] {
	case "sat":
		return Sat, nil
	case "unsat":
		return Unsat, nil
	}
	return Unknown, nil
}
