package sym

import (
	"fmt"
	"go/token"
	"go/types"
	"math"
	"unicode/utf8"

	"golang.org/x/tools/go/ssa"
)

func decodeRune(b []byte) (rune, int) { return utf8.DecodeRune(b) }

// shiftAmt normalises a shift count to width w (saturating).
func (in *Interp) shiftAmt(y *Term, yt types.Type, w int) *Term {
	st := in.st
	_, signed := intType(yt)
	if y.IsConst() {
		v := y.Val
		if signed && sx(y.Val, y.W) < 0 {
			in.goPanicRuntime("negative shift amount")
		}
		if v > uint64(w) {
			v = uint64(w)
		}
		return st.Const(v, w)
	}
	if signed {
		if in.branch(st.Slt(y, st.Const(0, y.W))) {
			in.goPanicRuntime("negative shift amount")
		}
	}
	switch {
	case y.W == w:
		return y
	case y.W < w:
		return st.Zext(y, w)
	default:
		big := st.Ule(st.Const(uint64(w), y.W), y)
		return st.Ite(big, st.Const(uint64(w), w), st.Extract(y, w-1, 0))
	}
}

func (in *Interp) binop(op token.Token, xt, yt types.Type, x, y Value) Value {
	st := in.st
	switch a := x.(type) {
	case *Term:
		b := y.(*Term)
		if isFloat(xt) {
			return in.floatBinop(op, a, b)
		}
		if a.W == 0 {
			switch op {
			case token.EQL:
				return st.Eq(a, b)
			case token.NEQ:
				return st.Ne(a, b)
			case token.AND, token.LAND:
				return st.BAnd(a, b)
			case token.OR, token.LOR:
				return st.BOr(a, b)
			}
			panic(fmt.Sprintf("bool binop %v", op))
		}
		_, signed := intType(xt)
		switch op {
		case token.ADD:
			return st.Add(a, b)
		case token.SUB:
			return st.Sub(a, b)
		case token.MUL:
			return st.Mul(a, b)
		case token.QUO, token.REM:
			if in.branch(st.Eq(b, st.Const(0, b.W))) {
				in.goPanicRuntime("integer divide by zero")
			}
			if op == token.QUO {
				if signed {
					return st.SDiv(a, b)
				}
				return st.UDiv(a, b)
			}
			if signed {
				return st.SRem(a, b)
			}
			return st.URem(a, b)
		case token.AND:
			return st.And(a, b)
		case token.OR:
			return st.Or(a, b)
		case token.XOR:
			return st.Xor(a, b)
		case token.AND_NOT:
			return st.And(a, st.Not(b))
		case token.SHL:
			return st.Shl(a, in.shiftAmt(b, yt, a.W))
		case token.SHR:
			k := in.shiftAmt(b, yt, a.W)
			if signed {
				return st.AShr(a, k)
			}
			return st.LShr(a, k)
		case token.EQL:
			return st.Eq(a, b)
		case token.NEQ:
			return st.Ne(a, b)
		case token.LSS:
			if signed {
				return st.Slt(a, b)
			}
			return st.Ult(a, b)
		case token.LEQ:
			if signed {
				return st.Sle(a, b)
			}
			return st.Ule(a, b)
		case token.GTR:
			if signed {
				return st.Slt(b, a)
			}
			return st.Ult(b, a)
		case token.GEQ:
			if signed {
				return st.Sle(b, a)
			}
			return st.Ule(b, a)
		}
		panic(fmt.Sprintf("int binop %v", op))
	case StrV:
		b := y.(StrV)
		switch op {
		case token.ADD:
			r := make([]*Term, 0, len(a.B)+len(b.B))
			r = append(r, a.B...)
			r = append(r, b.B...)
			return StrV{r}
		case token.EQL:
			return in.strEq(a, b)
		case token.NEQ:
			return st.BNot(in.strEq(a, b))
		case token.LSS:
			return in.strLess(a, b)
		case token.GTR:
			return in.strLess(b, a)
		case token.LEQ:
			return st.BNot(in.strLess(b, a))
		case token.GEQ:
			return st.BNot(in.strLess(a, b))
		}
	}
	switch op {
	case token.EQL:
		return in.equal(xt, x, y)
	case token.NEQ:
		return st.BNot(in.equal(xt, x, y))
	}
	panic(fmt.Sprintf("binop %v on %T", op, x))
}

func (in *Interp) floatBinop(op token.Token, a, b *Term) Value {
	st := in.st
	if (!a.IsConst() || !b.IsConst()) && (op == token.EQL || op == token.NEQ) {
		// IEEE equality is exact on the bit patterns: neither operand is a NaN, and the patterns are
		// equal or both are a zero of either sign
		w := a.W
		expMask, manMask, absMask := uint64(0x7f800000), uint64(0x007fffff), uint64(0x7fffffff)
		if w == 64 {
			expMask, manMask, absMask = 0x7ff0000000000000, 0x000fffffffffffff, 0x7fffffffffffffff
		}
		isNaN := func(x *Term) *Term {
			return st.BAnd(st.Eq(st.And(x, st.Const(expMask, w)), st.Const(expMask, w)), st.BNot(st.Eq(st.And(x, st.Const(manMask, w)), st.Const(0, w))))
		}
		bothZero := st.Eq(st.And(st.Or(a, b), st.Const(absMask, w)), st.Const(0, w))
		eq := st.BAnd(st.BAnd(st.BNot(isNaN(a)), st.BNot(isNaN(b))), st.BOr(st.Eq(a, b), bothZero))
		if op == token.NEQ {
			return st.BNot(eq)
		}
		return eq
	}
	if (!a.IsConst() || !b.IsConst()) && (op == token.LSS || op == token.GTR || op == token.LEQ || op == token.GEQ) {
		// IEEE ordering, exact on the bit patterns: map sign-magnitude to an unsigned key
		// (negative values reversed below the positive ones), NaNs compare false, -0 == +0
		w := a.W
		expMask, manMask, absMask, sign := uint64(0x7f800000), uint64(0x007fffff), uint64(0x7fffffff), uint64(0x80000000)
		if w == 64 {
			expMask, manMask, absMask, sign = 0x7ff0000000000000, 0x000fffffffffffff, 0x7fffffffffffffff, 0x8000000000000000
		}
		isNaN := func(x *Term) *Term {
			return st.BAnd(st.Eq(st.And(x, st.Const(expMask, w)), st.Const(expMask, w)), st.BNot(st.Eq(st.And(x, st.Const(manMask, w)), st.Const(0, w))))
		}
		key := func(x *Term) *Term {
			neg := st.BNot(st.Eq(st.And(x, st.Const(sign, w)), st.Const(0, w)))
			return st.Ite(neg, st.Not(x), st.Or(x, st.Const(sign, w)))
		}
		ordered := st.BAnd(st.BNot(isNaN(a)), st.BNot(isNaN(b)))
		bothZero := st.Eq(st.And(st.Or(a, b), st.Const(absMask, w)), st.Const(0, w))
		lt := func(x, y *Term) *Term { return st.BAnd(ordered, st.BAnd(st.BNot(bothZero), st.Ult(key(x), key(y)))) }
		eq := st.BAnd(ordered, st.BOr(st.Eq(a, b), bothZero))
		switch op {
		case token.LSS:
			return lt(a, b)
		case token.GTR:
			return lt(b, a)
		case token.LEQ:
			return st.BOr(lt(a, b), eq)
		default:
			return st.BOr(lt(b, a), eq)
		}
	}
	if !a.IsConst() || !b.IsConst() {
		// arithmetic on symbolic floats would need the floating-point theory
		in.unsupported("symbolic float arithmetic/comparison " + op.String())
	}
	x, y := in.floatVal(a), in.floatVal(b)
	switch op {
	case token.ADD:
		return in.floatConst(x+y, a.W)
	case token.SUB:
		return in.floatConst(x-y, a.W)
	case token.MUL:
		return in.floatConst(x*y, a.W)
	case token.QUO:
		return in.floatConst(x/y, a.W)
	case token.EQL:
		return st.Bool(x == y)
	case token.NEQ:
		return st.Bool(x != y)
	case token.LSS:
		return st.Bool(x < y)
	case token.LEQ:
		return st.Bool(x <= y)
	case token.GTR:
		return st.Bool(x > y)
	case token.GEQ:
		return st.Bool(x >= y)
	}
	panic("float binop")
}

// equal builds x == y for comparable values of static type t.
func (in *Interp) equal(t types.Type, x, y Value) *Term {
	st := in.st
	switch a := x.(type) {
	case *Term:
		if isFloat(t) {
			return in.floatBinop(token.EQL, a, y.(*Term)).(*Term)
		}
		return st.Eq(a, y.(*Term))
	case StrV:
		return in.strEq(a, y.(StrV))
	case PtrV:
		b := y.(PtrV)
		return st.Bool(a.C == b.C && (a.C == nil || a.Off == b.Off))
	case SliceV:
		b := y.(SliceV)
		if a.C != nil && b.C != nil {
			panic("comparison of two non-nil slices")
		}
		return st.Bool(a.C == nil && b.C == nil)
	case *MapV:
		return st.Bool(a == y.(*MapV))
	case *ChanV:
		return st.Bool(a == y.(*ChanV))
	case *FuncV:
		b := y.(*FuncV)
		if a != nil && b != nil {
			panic("comparison of two non-nil funcs")
		}
		return st.Bool(a == nil && b == nil)
	case IfaceV:
		b := y.(IfaceV)
		if a.T == nil || b.T == nil {
			return st.Bool(a.T == nil && b.T == nil)
		}
		if !types.Identical(a.T, b.T) {
			return st.False
		}
		return in.equal(a.T, a.V, b.V)
	case StructV:
		b := y.(StructV)
		su := t.Underlying().(*types.Struct)
		r := st.True
		for i := range a {
			r = st.BAnd(r, in.equal(su.Field(i).Type(), a[i], b[i]))
		}
		return r
	case ArrayV:
		b := y.(ArrayV)
		et := t.Underlying().(*types.Array).Elem()
		r := st.True
		for i := range a {
			r = st.BAnd(r, in.equal(et, a[i], b[i]))
		}
		return r
	}
	panic(fmt.Sprintf("equal on %T", x))
}

// ---------------------------------------------------------------- conversion

func (in *Interp) convert(from, to types.Type, x Value) Value {
	st := in.st
	fu, tu := from.Underlying(), to.Underlying()
	// pointer <-> unsafe.Pointer
	if _, ok := x.(PtrV); ok {
		if b, ok := tu.(*types.Basic); ok && b.Kind() != types.UnsafePointer {
			in.unsupported("pointer to integer conversion")
		}
		return x
	}
	switch f := fu.(type) {
	case *types.Basic:
		switch {
		case f.Info()&types.IsString != 0:
			s := x.(StrV)
			if ts, ok := tu.(*types.Slice); ok {
				if sizeof(ts.Elem()) == 1 {
					return in.bytesToSlice(s.B)
				}
				// []rune
				cs := in.mustConcStr(s, "string to []rune")
				rs := []rune(cs)
				c := in.newArrayCell(ts.Elem(), len(rs))
				for i, r := range rs {
					in.encodeFlat(c, i*4, ts.Elem(), st.Const(uint64(r), 32))
				}
				return SliceV{C: c, Len: len(rs), Cap: len(rs)}
			}
			return s
		case f.Info()&types.IsInteger != 0:
			t := x.(*Term)
			tb, ok := tu.(*types.Basic)
			if !ok {
				break
			}
			switch {
			case tb.Info()&types.IsInteger != 0:
				w, _ := basicWidth(tb)
				_, fs := basicWidth(f)
				return st.Resize(t, w, fs)
			case tb.Info()&types.IsFloat != 0:
				if !t.IsConst() {
					in.unsupported("symbolic int to float conversion")
				}
				w, _ := basicWidth(tb)
				_, fs := basicWidth(f)
				if fs {
					return in.floatConst(float64(sx(t.Val, t.W)), w)
				}
				return in.floatConst(float64(t.Val), w)
			case tb.Info()&types.IsString != 0:
				if !t.IsConst() {
					in.unsupported("symbolic rune to string conversion")
				}
				return in.strConst(string(rune(sx(t.Val, t.W))))
			case tb.Kind() == types.UnsafePointer:
				in.unsupported("integer to unsafe.Pointer conversion")
			}
		case f.Info()&types.IsFloat != 0:
			t := x.(*Term)
			tb, ok := tu.(*types.Basic)
			if !ok {
				break
			}
			w, ts := basicWidth(tb)
			if tb.Info()&types.IsFloat != 0 {
				if t.W == w {
					return t
				}
				if !t.IsConst() {
					in.unsupported("symbolic float width conversion")
				}
				return in.floatConst(in.floatVal(t), w)
			}
			if !t.IsConst() {
				in.unsupported("symbolic float to int conversion")
			}
			fv := in.floatVal(t)
			if ts {
				return st.Const(uint64(int64(fv)), w)
			}
			return st.Const(uint64(fv), w)
		}
	case *types.Slice:
		s := x.(SliceV)
		if tb, ok := tu.(*types.Basic); ok && tb.Info()&types.IsString != 0 {
			if sizeof(f.Elem()) == 1 {
				return StrV{B: in.sliceBytes(s, 1)}
			}
			// []rune -> string
			var rs []rune
			for i := 0; i < s.Len; i++ {
				t := in.decodeFlat(s.C, s.Off+4*i, f.Elem()).(*Term)
				if !t.IsConst() {
					in.unsupported("symbolic []rune to string")
				}
				rs = append(rs, rune(t.Val))
			}
			return in.strConst(string(rs))
		}
		if _, ok := tu.(*types.Slice); ok {
			return s
		}
		if ta, ok := tu.(*types.Array); ok {
			// slice to array conversion
			if int(ta.Len()) > s.Len {
				in.goPanicRuntime("cannot convert slice to array: length too short")
			}
			return in.load(PtrV{C: s.C, Off: s.Off}, to)
		}
	}
	if types.Identical(fu, tu) {
		return x
	}
	panic(fmt.Sprintf("convert: unsupported %v -> %v", from, to))
}

// ---------------------------------------------------------------- builtins

func (in *Interp) callBuiltin(fr *frame, b *ssa.Builtin, args []Value, c *ssa.CallCommon) Value {
	st := in.st
	switch b.Name() {
	case "len":
		switch v := args[0].(type) {
		case StrV:
			return st.Const(uint64(len(v.B)), 64)
		case SliceV:
			return st.Const(uint64(v.Len), 64)
		case *MapV:
			return in.mapLen(v)
		case *ChanV:
			if v == nil {
				return st.Const(0, 64)
			}
			return st.Const(uint64(len(v.buf)), 64)
		case ArrayV:
			return st.Const(uint64(len(v)), 64)
		case PtrV:
			at := c.Args[0].Type().Underlying().(*types.Pointer).Elem().Underlying().(*types.Array)
			return st.Const(uint64(at.Len()), 64)
		}
	case "cap":
		switch v := args[0].(type) {
		case SliceV:
			return st.Const(uint64(v.Cap), 64)
		case *ChanV:
			return st.Const(uint64(v.cap), 64)
		case ArrayV:
			return st.Const(uint64(len(v)), 64)
		case PtrV:
			at := c.Args[0].Type().Underlying().(*types.Pointer).Elem().Underlying().(*types.Array)
			return st.Const(uint64(at.Len()), 64)
		}
	case "append":
		if in.race != nil {
			in.raceAppend(fr, args[0].(SliceV), args[1], c.Args[0].Type())
		}
		return in.appendOp(args[0].(SliceV), args[1], c.Args[0].Type(), c.Args[1].Type())
	case "copy":
		if in.race != nil {
			in.raceCopy(fr, args[0].(SliceV), args[1], c.Args[0].Type())
		}
		return st.Const(uint64(in.copyOp(args[0].(SliceV), args[1], c.Args[0].Type())), 64)
	case "delete":
		if m := args[0].(*MapV); m != nil {
			in.raceMap(fr, m, true)
			in.mapDelete(m, args[1])
		}
		return nil
	case "close":
		ch := args[0].(*ChanV)
		if ch == nil {
			panic(goPanic{msg: "close of nil channel", site: in.site()})
		}
		if ch.closed {
			panic(goPanic{msg: "close of closed channel", site: in.site()})
		}
		ch.closed = true
		if in.race != nil {
			ch.closeVC = vcJoin(vcCopy(ch.closeVC), in.raceSnapshot())
		}
		// closing a channel wakes its waiters, which may run at once on another processor:
		// a scheduling point
		in.Yield()
		return nil
	case "clear":
		switch v := args[0].(type) {
		case SliceV:
			et := c.Args[0].Type().Underlying().(*types.Slice).Elem()
			for i := 0; i < v.Len; i++ {
				in.store(in.elemPtr(v, i, et), et, in.zero(et))
			}
		case *MapV:
			if v != nil {
				for _, e := range v.entries {
					e.deleted = true
				}
				v.entries = nil
				v.conc = nil
			}
		}
		return nil
	case "min", "max":
		t := c.Args[0].Type()
		r := args[0]
		for _, a := range args[1:] {
			var less *Term
			if b.Name() == "min" {
				less = in.binop(token.LSS, t, t, a, r).(*Term)
			} else {
				less = in.binop(token.GTR, t, t, a, r).(*Term)
			}
			r = in.iteValue(less, a, r)
		}
		return r
	case "recover":
		if fr.caller != nil && fr.caller.panicking {
			fr.caller.panicking = false
			if gp, ok := fr.caller.panicVal.(goPanic); ok {
				if gp.val != nil {
					return gp.val
				}
				return IfaceV{T: types.Typ[types.String], V: in.strConst(gp.msg)}
			}
		}
		return IfaceV{}
	case "print", "println":
		return nil
	case "ssa:wrapnilchk":
		if p, ok := args[0].(PtrV); ok && p.C == nil {
			in.goPanicRuntime("value method called using nil pointer")
		}
		return args[0]
	case "String": // unsafe.String(ptr, len)
		p := args[0].(PtrV)
		n := int(in.mustConst(args[1].(*Term), "unsafe.String len"))
		if n == 0 {
			return StrV{}
		}
		return StrV{B: in.sliceBytes(SliceV{C: p.C, Off: p.Off, Len: n, Cap: n}, 1)}
	case "StringData":
		s := args[0].(StrV)
		if len(s.B) == 0 {
			return PtrV{}
		}
		sl := in.bytesToSlice(s.B)
		return PtrV{C: sl.C}
	case "SliceData":
		s := args[0].(SliceV)
		return PtrV{C: s.C, Off: s.Off}
	case "Slice": // unsafe.Slice(ptr, len)
		p := args[0].(PtrV)
		n := int(in.mustConst(in.idx64(args[1], c.Args[1].Type()), "unsafe.Slice len"))
		if p.C == nil {
			return SliceV{}
		}
		return SliceV{C: p.C, Off: p.Off, Len: n, Cap: n}
	}
	in.unsupported("builtin " + b.Name())
	return nil
}

// elemPtr returns a pointer to element i of slice s.
func (in *Interp) elemPtr(s SliceV, i int, et types.Type) PtrV {
	if s.C.kind == cFlat {
		return PtrV{C: s.C, Off: s.Off + i*sizeof(et)}
	}
	return PtrV{C: s.C.Kids[s.Off+i]}
}

func (in *Interp) appendOp(s SliceV, more Value, st0, mt types.Type) Value {
	et := st0.Underlying().(*types.Slice).Elem()
	flat := isFlat(et)
	es := 1
	if flat {
		es = sizeof(et)
	}
	var n int
	var srcStr *StrV
	var src SliceV
	switch m := more.(type) {
	case StrV:
		n = len(m.B)
		srcStr = &m
	case SliceV:
		n = m.Len
		src = m
	}
	if n == 0 {
		return s
	}
	need := s.Len + n
	dst := s
	if need > s.Cap {
		nc := need
		if !in.growExact {
			if d := 2 * s.Cap; d > nc {
				nc = d
			}
			if flat && es == 1 && nc < 8 {
				nc = 8
			}
		}
		if in.cfg.AllocCeiling > 0 && int64(nc)*int64(es) > in.cfg.AllocCeiling*2 {
			in.implicitViolation("alloc-ceiling", fmt.Sprintf("append grows a slice to %d bytes", nc*es))
		}
		cell := in.newArrayCell(et, nc)
		dst = SliceV{C: cell, Len: s.Len, Cap: nc}
		if s.Len > 0 {
			in.copyElems(dst, s, s.Len, et)
		}
	}
	dst.Len = need
	tail := SliceV{C: dst.C, Off: dst.Off + s.Len*esOff(dst, es), Len: n, Cap: n}
	if srcStr != nil {
		for i, b := range srcStr.B {
			tail.C.setByte(tail.Off+i, b)
		}
	} else {
		in.copyElems(tail, src, n, et)
	}
	return dst
}

func esOff(s SliceV, es int) int {
	if s.C.kind == cFlat {
		return es
	}
	return 1
}

// copyElems copies n elements from src to dst (memmove semantics).
func (in *Interp) copyElems(dst, src SliceV, n int, et types.Type) {
	if n == 0 {
		return
	}
	if dst.C.kind == cFlat && src.C.kind == cFlat {
		nb := n * sizeof(et)
		tmp := make([]*Term, nb)
		for i := 0; i < nb; i++ {
			tmp[i] = src.C.getByte(in.st, src.Off+i)
		}
		for i := 0; i < nb; i++ {
			dst.C.setByte(dst.Off+i, tmp[i])
		}
		return
	}
	tmp := make([]Value, n)
	for i := 0; i < n; i++ {
		tmp[i] = in.load(in.elemPtr(src, i, et), et)
	}
	for i := 0; i < n; i++ {
		in.store(in.elemPtr(dst, i, et), et, tmp[i])
	}
}

func (in *Interp) copyOp(dst SliceV, srcv Value, dt types.Type) int {
	et := dt.Underlying().(*types.Slice).Elem()
	switch src := srcv.(type) {
	case StrV:
		n := len(src.B)
		if dst.Len < n {
			n = dst.Len
		}
		for i := 0; i < n; i++ {
			dst.C.setByte(dst.Off+i, src.B[i])
		}
		return n
	case SliceV:
		n := src.Len
		if dst.Len < n {
			n = dst.Len
		}
		in.copyElems(dst, src, n, et)
		return n
	}
	panic("copy")
}

// ---------------------------------------------------------------- maps

func (in *Interp) keyEq(kt types.Type, a, b Value) *Term {
	return in.equal(kt, a, b)
}

// concKey returns a canonical string for fully concrete int/string keys.
func concKey(k Value) (string, bool) {
	switch x := k.(type) {
	case *Term:
		if x.IsConst() {
			return fmt.Sprintf("i%d:%d", x.W, x.Val), true
		}
	case StrV:
		if s, ok := concStr(x); ok {
			return "s" + s, true
		}
	}
	return "", false
}

func (in *Interp) mapFind(m *MapV, k Value) *mapEntry {
	if m == nil {
		return nil
	}
	ck, conc := concKey(k)
	if conc {
		if e, ok := m.conc[ck]; ok && !e.deleted {
			return e
		}
		for _, e := range m.entries {
			if e.deleted || e.concKey {
				continue
			}
			if in.branch(in.keyEq(m.kt, e.k, k)) {
				return e
			}
		}
		return nil
	}
	for _, e := range m.entries {
		if e.deleted {
			continue
		}
		if in.branch(in.keyEq(m.kt, e.k, k)) {
			return e
		}
	}
	return nil
}

func (in *Interp) mapSet(m *MapV, k, v Value) {
	if e := in.mapFind(m, k); e != nil {
		e.v = v
		return
	}
	e := &mapEntry{k: k, v: v}
	if ck, ok := concKey(k); ok {
		if m.conc == nil {
			m.conc = map[string]*mapEntry{}
		}
		m.conc[ck] = e
		e.concKey = true
	}
	m.entries = append(m.entries, e)
}

func (in *Interp) mapDelete(m *MapV, k Value) {
	if e := in.mapFind(m, k); e != nil {
		e.deleted = true
		if ck, ok := concKey(e.k); ok {
			delete(m.conc, ck)
		}
		for i, x := range m.entries {
			if x == e {
				m.entries = append(m.entries[:i:i], m.entries[i+1:]...)
				break
			}
		}
	}
}

func (in *Interp) mapLen(m *MapV) *Term {
	if m == nil {
		return in.st.Const(0, 64)
	}
	return in.st.Const(uint64(len(m.entries)), 64)
}

func (in *Interp) lookup(fr *frame, ins *ssa.Lookup) Value {
	x := fr.get(ins.X)
	switch v := x.(type) {
	case StrV:
		return in.strIndex(v, in.idx64(fr.get(ins.Index), ins.Index.Type()))
	case *MapV:
		in.raceMap(fr, v, false)
		k := fr.get(ins.Index)
		e := in.mapFind(v, k)
		var val Value
		if e != nil {
			val = e.v
		} else {
			val = in.zero(ins.X.Type().Underlying().(*types.Map).Elem())
		}
		if ins.CommaOk {
			return TupleV{val, in.st.Bool(e != nil)}
		}
		return val
	}
	panic(fmt.Sprintf("lookup on %T", x))
}

var _ = math.MaxInt
