package sym

import (
	"fmt"
	"math/big"
	"strings"
)

// INT-wrap encoding: every bit-vector term becomes a mathematical integer in
// [0, 2^w) with explicit wrap-around. Used for arithmetic kernels whose
// multipliers and divisors are constants (C20), where bit-blasting 64-bit
// division does not finish. Bitwise operators on two symbolic operands are not
// expressible and make the query inconclusive.

func pow2(w int) string { return new(big.Int).Lsh(big.NewInt(1), uint(w)).String() }

func (s *Solver) refInt(t *Term) string {
	switch t.Op {
	case OConst:
		if t.W == 0 {
			if t.Val != 0 {
				return "true"
			}
			return "false"
		}
		return new(big.Int).SetUint64(t.Val).String()
	case OVar:
		if !s.decl[t.Name] {
			s.decl[t.Name] = true
			if t.W == 0 {
				s.send("(declare-const " + quoteName(t.Name) + " Bool)")
			} else {
				s.send("(declare-const " + quoteName(t.Name) + " Int)")
				s.send(fmt.Sprintf("(assert (and (>= %s 0) (< %s %s)))", quoteName(t.Name), quoteName(t.Name), pow2(t.W)))
			}
		}
		return quoteName(t.Name)
	}
	name := fmt.Sprintf("t%d", t.ID)
	if s.defined[t.ID] {
		return name
	}
	a := make([]string, len(t.Args))
	for i, x := range t.Args {
		a[i] = s.refInt(x)
	}
	w := t.W
	signed := func(x string, w int) string {
		return fmt.Sprintf("(ite (>= %s %s) (- %s %s) %s)", x, pow2(w-1), x, pow2(w), x)
	}
	wrap := func(x string) string { return fmt.Sprintf("(mod %s %s)", x, pow2(w)) }
	sort := "Int"
	var body string
	switch t.Op {
	case OAdd:
		body = wrap("(+ " + a[0] + " " + a[1] + ")")
	case OSub:
		body = wrap("(- " + a[0] + " " + a[1] + ")")
	case OMul:
		body = wrap("(* " + a[0] + " " + a[1] + ")")
	case OUDiv:
		body = fmt.Sprintf("(ite (= %s 0) %s (div %s %s))", a[1], new(big.Int).Sub(new(big.Int).Lsh(big.NewInt(1), uint(w)), big.NewInt(1)).String(), a[0], a[1])
	case OURem:
		body = fmt.Sprintf("(ite (= %s 0) %s (mod %s %s))", a[1], a[0], a[0], a[1])
	case OSDiv, OSRem:
		sa, sb := signed(a[0], w), signed(a[1], w)
		// truncated division of signed values
		q := fmt.Sprintf("(let ((sa %s) (sb %s)) (ite (= sb 0) (ite (>= sa 0) (- 1) 1) (ite (>= sa 0) (ite (> sb 0) (div sa sb) (- (div sa (- sb)))) (ite (> sb 0) (- (div (- sa) sb)) (div (- sa) (- sb))))))", sa, sb)
		if t.Op == OSDiv {
			body = wrap(q)
		} else {
			body = wrap(fmt.Sprintf("(let ((q %s) (sa2 %s) (sb2 %s)) (ite (= sb2 0) sa2 (- sa2 (* sb2 q))))", q, sa, sb))
		}
	case ONot:
		body = fmt.Sprintf("(- %s %s)", new(big.Int).Sub(new(big.Int).Lsh(big.NewInt(1), uint(w)), big.NewInt(1)).String(), a[0])
	case OAnd, OOr, OXor:
		// expressible when one operand is a constant: x & c is a sum over the runs of ones in c
		c := t.Args[1]
		if !c.IsConst() {
			s.Errors = append(s.Errors, "(error \"int encoding: bitwise operator "+opNames[t.Op]+" on two symbolic operands\")")
			body = "0"
			break
		}
		var parts []string
		for lo := 0; lo < w; {
			if c.Val>>uint(lo)&1 == 0 {
				lo++
				continue
			}
			hi := lo
			for hi+1 < w && c.Val>>uint(hi+1)&1 == 1 {
				hi++
			}
			parts = append(parts, fmt.Sprintf("(* (mod (div %s %s) %s) %s)", a[0], pow2(lo), pow2(hi-lo+1), pow2(lo)))
			lo = hi + 1
		}
		and := "0"
		if len(parts) == 1 {
			and = parts[0]
		} else if len(parts) > 1 {
			and = "(+ " + strings.Join(parts, " ") + ")"
		}
		cs := new(big.Int).SetUint64(c.Val).String()
		switch t.Op {
		case OAnd:
			body = and
		case OOr:
			body = fmt.Sprintf("(- (+ %s %s) %s)", a[0], cs, and)
		default:
			body = fmt.Sprintf("(- (+ %s %s) (* 2 %s))", a[0], cs, and)
		}
	case OShl, OLShr, OAShr:
		s.Errors = append(s.Errors, "(error \"int encoding: shift by a symbolic amount\")")
		body = "0"
	case OExtract:
		lo := int(t.Val)
		body = fmt.Sprintf("(mod (div %s %s) %s)", a[0], pow2(lo), pow2(w))
	case OConcat:
		var parts []string
		sh := 0
		for i := len(t.Args) - 1; i >= 0; i-- {
			if sh == 0 {
				parts = append(parts, a[i])
			} else {
				parts = append(parts, fmt.Sprintf("(* %s %s)", a[i], pow2(sh)))
			}
			sh += t.Args[i].W
		}
		body = "(+ " + strings.Join(parts, " ") + ")"
	case OSext:
		w0 := t.Args[0].W
		ext := new(big.Int).Sub(new(big.Int).Lsh(big.NewInt(1), uint(w)), new(big.Int).Lsh(big.NewInt(1), uint(w0))).String()
		body = fmt.Sprintf("(ite (>= %s %s) (+ %s %s) %s)", a[0], pow2(w0-1), a[0], ext, a[0])
	case OEq:
		sort = "Bool"
		body = "(= " + a[0] + " " + a[1] + ")"
	case OUlt:
		sort = "Bool"
		body = "(< " + a[0] + " " + a[1] + ")"
	case OUle:
		sort = "Bool"
		body = "(<= " + a[0] + " " + a[1] + ")"
	case OSlt:
		sort = "Bool"
		w0 := t.Args[0].W
		body = "(< " + signed(a[0], w0) + " " + signed(a[1], w0) + ")"
	case OSle:
		sort = "Bool"
		w0 := t.Args[0].W
		body = "(<= " + signed(a[0], w0) + " " + signed(a[1], w0) + ")"
	case OIte:
		if w == 0 {
			sort = "Bool"
		}
		body = "(ite " + a[0] + " " + a[1] + " " + a[2] + ")"
	case OBAnd:
		sort = "Bool"
		body = "(and " + a[0] + " " + a[1] + ")"
	case OBOr:
		sort = "Bool"
		body = "(or " + a[0] + " " + a[1] + ")"
	case OBNot:
		sort = "Bool"
		body = "(not " + a[0] + ")"
	case OUF:
		fn := quoteName(t.Name)
		if !s.decl["uf:"+t.Name] {
			s.decl["uf:"+t.Name] = true
			var as []string
			for range t.Args {
				as = append(as, "Int")
			}
			s.send("(declare-fun " + fn + " (" + strings.Join(as, " ") + ") Int)")
		}
		// range of the result is constrained at each application
		body = fmt.Sprintf("(mod (%s %s) %s)", fn, strings.Join(a, " "), pow2(w))
	default:
		panic("refInt: op")
	}
	if w == 0 {
		sort = "Bool"
	}
	s.send("(define-fun " + name + " () " + sort + " " + body + ")")
	s.defined[t.ID] = true
	return name
}
