package sym

import (
	"fmt"
	"go/constant"
	"go/token"
	"go/types"
	"math"
	"strings"

	"golang.org/x/tools/go/ssa"
)

// Config holds per-harness engine settings.
type Config struct {
	MaxSteps      int64 // instruction budget per path
	MaxConcretize int   // max values enumerated per concretisation
	MaxLoop       int   // per-frame visits of one block
	GrowExact     bool  // append grows to exactly the needed capacity
	NoFork        bool
	InitPkgs      map[string]bool // packages whose init is interpreted
	Trace         bool
	AllocCeiling  int64 // bytes; allocation requests that can exceed it are violations
	WaivePanics   []string
	QueryTimeout  int
	AllowLeak     bool
	Race          bool // happens-before data-race analysis (race.go)
	CrossCheck    bool   // keep the transcript of assertion queries for re-checking on other solvers
	UnwindLabel   string // when set, exhausting the loop/instruction budget is a violation with this label (non-termination)
	IntMode       bool   // integer-with-wrap solver encoding (constant multipliers/divisors only)
	Params        map[string]int
}

type stats struct {
	steps      int64
	allocBytes int64
}

type frame struct {
	in        *Interp
	fn        *ssa.Function
	env       []Value
	idx       map[ssa.Value]int
	block     *ssa.BasicBlock
	prev      *ssa.BasicBlock
	defers    []func()
	result    Value
	panicking bool
	panicVal  interface{}
	caller    *frame
	visits    map[*ssa.BasicBlock]int
	curInstr  ssa.Instruction
}

// Interp executes one path.
type Interp struct {
	prog       *ssa.Program
	st         *Store
	sol        *Solver
	race       *raceState
	ps         *pathState
	cfg        *Config
	globals    map[*ssa.Global]*Cell
	nextCell   int
	nextID     int
	stats      stats
	out        *Outcome
	cur        *frame
	natives    map[string]nativeFn
	varCount   map[string]int
	sentinel   map[string]Value
	co         *sched
	ext        map[string]interface{} // per-path scratch for natives
	ext2       map[interface{}]interface{} // the same, keyed by arbitrary comparable values
	world      *World
	observes   []obsRec
	concrete   map[string]uint64
	growExact  bool
	constCache map[*ssa.Const]Value
	strCache   map[string]StrV
	bounds     map[*Term]*ival
	quickHits  int
	emits      []emitRec
	reuse      map[string]uint64
	in2        *Interp
}

type emitRec struct {
	label string
	terms []*Term
	text  string
}

func (in *Interp) where() string {
	fr := in.cur
	if fr == nil {
		return "?"
	}
	var parts []string
	for f, n := fr, 0; f != nil && n < 6; f, n = f.caller, n+1 {
		pos := token.NoPos
		if f.curInstr != nil {
			pos = f.curInstr.Pos()
		}
		loc := f.fn.String()
		if pos.IsValid() {
			p := in.prog.Fset.Position(pos)
			loc += fmt.Sprintf("@%s:%d", shortFile(p.Filename), p.Line)
		}
		parts = append(parts, loc)
	}
	return strings.Join(parts, " < ")
}

func shortFile(f string) string {
	if i := strings.Index(f, "/repo/"); i >= 0 {
		return f[i+6:]
	}
	if i := strings.LastIndex(f, "/pkg/mod/"); i >= 0 {
		return f[i+9:]
	}
	if i := strings.LastIndex(f, "/src/"); i >= 0 {
		return f[i+5:]
	}
	return f
}

// siteOf gives the innermost repo-level source position for reports.
func (in *Interp) site() string {
	for f := in.cur; f != nil; f = f.caller {
		if f.curInstr == nil {
			continue
		}
		pos := f.curInstr.Pos()
		if !pos.IsValid() {
			continue
		}
		p := in.prog.Fset.Position(pos)
		if strings.Contains(p.Filename, "/repo/") && !strings.Contains(p.Filename, "zz_verif") {
			return fmt.Sprintf("%s:%d:%s", shortFile(p.Filename), p.Line, f.fn.String())
		}
	}
	return in.where()
}

func (in *Interp) unsupported(msg string) {
	panic(abort{kind: "unsupported", msg: msg + " [" + in.where() + "]"})
}

func (in *Interp) goPanicRuntime(msg string) {
	panic(goPanic{msg: "runtime error: " + msg, site: in.site()})
}

func (in *Interp) freshVar(label string, w int) *Term {
	k := in.varCount[label]
	in.varCount[label] = k + 1
	return in.st.Var(fmt.Sprintf("%s#%d", label, k), w)
}

// ---------------------------------------------------------------- values

func (in *Interp) constValue(c *ssa.Const) Value {
	if c.Value != nil && c.Value.Kind() == constant.String && isString(c.Type()) {
		sv := constant.StringVal(c.Value)
		if v, ok := in.strCache[sv]; ok {
			return v
		}
		v := in.strConst(sv)
		in.strCache[sv] = v
		return v
	}
	return in.constValue1(c)
}

func (in *Interp) constValue1(c *ssa.Const) Value {
	t := c.Type()
	if c.Value == nil {
		return in.zero(t)
	}
	switch u := t.Underlying().(type) {
	case *types.Basic:
		switch {
		case u.Info()&types.IsBoolean != 0:
			return in.st.Bool(constant.BoolVal(c.Value))
		case u.Info()&types.IsString != 0:
			return in.strConst(constant.StringVal(c.Value))
		case u.Info()&types.IsInteger != 0:
			w, _ := basicWidth(u)
			if i, ok := constant.Int64Val(constant.ToInt(c.Value)); ok {
				return in.st.Const(uint64(i), w)
			}
			if i, ok := constant.Uint64Val(constant.ToInt(c.Value)); ok {
				return in.st.Const(i, w)
			}
			panic("const int out of range")
		case u.Info()&types.IsFloat != 0:
			f, _ := constant.Float64Val(c.Value)
			if u.Kind() == types.Float32 {
				return in.st.Const(uint64(math.Float32bits(float32(f))), 32)
			}
			return in.st.Const(math.Float64bits(f), 64)
		}
	}
	panic(fmt.Sprintf("constValue: unsupported const %v of type %v", c, t))
}

func (fr *frame) get(v ssa.Value) Value {
	switch v := v.(type) {
	case *ssa.Const:
		return fr.in.constValue(v)
	case *ssa.Global:
		return PtrV{C: fr.in.global(v)}
	case *ssa.Function:
		return &FuncV{Fn: v}
	case *ssa.Builtin:
		return v
	}
	i, ok := fr.idx[v]
	if !ok {
		panic(fmt.Sprintf("get: no slot for %s (%T) in %s", v.Name(), v, fr.fn))
	}
	return fr.env[i]
}

func (fr *frame) set(v ssa.Value, x Value) { fr.env[fr.idx[v]] = x }

// slotIndex numbers every value of fn (params, free vars, value-instructions).
func (w *World) slotIndex(fn *ssa.Function) map[ssa.Value]int {
	if m, ok := w.slots.Load(fn); ok {
		return m.(map[ssa.Value]int)
	}
	m := map[ssa.Value]int{}
	for _, p := range fn.Params {
		m[p] = len(m)
	}
	for _, f := range fn.FreeVars {
		m[f] = len(m)
	}
	for _, b := range fn.Blocks {
		for _, ins := range b.Instrs {
			if v, ok := ins.(ssa.Value); ok {
				m[v] = len(m)
			}
		}
	}
	w.slots.Store(fn, m)
	return m
}

func (in *Interp) global(g *ssa.Global) *Cell {
	if c, ok := in.globals[g]; ok {
		return c
	}
	t := g.Type().(*types.Pointer).Elem()
	c := in.newCell(t)
	c.name = g.String()
	in.globals[g] = c
	pkg := ""
	if g.Pkg != nil {
		pkg = g.Pkg.Pkg.Path()
	}
	if !in.cfg.InitPkgs[pkg] {
		in.lazyGlobal(g, c, t)
	}
	return c
}

// lazyGlobal gives globals of packages whose init is not interpreted a value.
func (in *Interp) lazyGlobal(g *ssa.Global, c *Cell, t types.Type) {
	name := g.String()
	if f, ok := globalModels[name]; ok {
		f(in, c)
		return
	}
	if strings.HasPrefix(g.Name(), "init$guard") {
		return
	}
	if types.Identical(t, errorType) {
		c.V = in.sentinelError(name)
		return
	}
	if isFlat(t) && sizeof(t) == 0 {
		return
	}
	// remember: reads of this are unsupported unless whitelisted
	if !zeroOKGlobals[name] {
		c.name = "!uninit:" + name
	}
}

var errorType = types.Universe.Lookup("error").Type()

// ---------------------------------------------------------------- calls

func (in *Interp) callValue(caller *frame, fnv Value, args []Value, site ssa.Instruction) Value {
	switch f := fnv.(type) {
	case *FuncV:
		if f == nil {
			in.goPanicRuntime("call of nil function")
		}
		if f.Native != nil {
			return f.Native(in, caller, args)
		}
		return in.callFn(caller, f.Fn, args, f.Env)
	case *ssa.Builtin:
		panic("builtin as value")
	}
	panic(fmt.Sprintf("callValue: cannot call %T", fnv))
}

func (in *Interp) callFn(caller *frame, fn *ssa.Function, args []Value, env []Value) Value {
	name := fn.String()
	if fn.Synthetic == "package initializer" && fn.Pkg != nil && !in.cfg.InitPkgs[fn.Pkg.Pkg.Path()] {
		return nil
	}
	if fn.Parent() == nil {
		if nat := in.lookupNative(fn, name); nat != nil {
			r := nat(in, caller, args)
			if _, nh := r.(notHandledT); !nh {
				in.out.Stubs[name]++
				return r
			}
		}
	}
	if fn.Blocks == nil {
		in.unsupported("no body for function " + name)
	}
	if fn.TypeParams().Len() > 0 && len(fn.TypeArgs()) == 0 {
		in.unsupported("uninstantiated generic " + name)
	}
	in.out.Funcs[name]++
	idx := in.world.slotIndex(fn)
	fr := &frame{in: in, fn: fn, caller: caller, idx: idx, env: make([]Value, len(idx))}
	for i, p := range fn.Params {
		fr.env[idx[p]] = args[i]
	}
	for i, fv := range fn.FreeVars {
		fr.env[idx[fv]] = env[i]
	}
	fr.block = fn.Blocks[0]
	saved := in.cur
	in.cur = fr
	defer func() { in.cur = saved }()
	for fr.block != nil {
		in.runFrame(fr)
	}
	return fr.result
}

func (in *Interp) runFrame(fr *frame) {
	defer func() {
		if fr.block == nil {
			return
		}
		r := recover()
		if _, ok := r.(goPanic); !ok {
			panic(r) // abort or engine bug: propagate unchanged
		}
		fr.panicking = true
		fr.panicVal = r
		in.cur = fr
		fr.runDefers()
		fr.block = fr.fn.Recover
		if fr.block == nil {
			// recovered without named results: return zero
			fr.result = in.zeroResults(fr.fn)
		}
	}()
	for {
		blk := fr.block
		if fr.prev != nil && blk.Index <= fr.prev.Index {
			if fr.visits == nil {
				fr.visits = map[*ssa.BasicBlock]int{}
			}
			fr.visits[blk]++
			if fr.visits[blk] > in.cfg.MaxLoop {
				panic(abort{kind: "unwind", msg: fmt.Sprintf("block %s of %s visited more than %d times", blk, fr.fn, in.cfg.MaxLoop)})
			}
		}
		// phis
		first := 0
		if len(blk.Instrs) > 0 {
			if _, ok := blk.Instrs[0].(*ssa.Phi); ok {
				idx := -1
				for i, p := range blk.Preds {
					if p == fr.prev {
						idx = i
						break
					}
				}
				var tmp []Value
				for _, ins := range blk.Instrs {
					phi, ok := ins.(*ssa.Phi)
					if !ok {
						break
					}
					tmp = append(tmp, fr.get(phi.Edges[idx]))
					first++
				}
				for i := 0; i < first; i++ {
					fr.set(blk.Instrs[i].(*ssa.Phi), tmp[i])
				}
			}
		}
		for _, ins := range blk.Instrs[first:] {
			fr.curInstr = ins
			in.stats.steps++
			if in.stats.steps > in.cfg.MaxSteps {
				panic(abort{kind: "unwind", msg: fmt.Sprintf("instruction budget %d exhausted", in.cfg.MaxSteps)})
			}
			if in.cfg.Trace {
				fmt.Printf("  %s: %v\n", fr.fn.Name(), ins)
			}
			switch in.visit(fr, ins) {
			case kReturn:
				return
			case kJump:
			}
		}
	}
}

func (in *Interp) zeroResults(fn *ssa.Function) Value {
	res := fn.Signature.Results()
	switch res.Len() {
	case 0:
		return nil
	case 1:
		return in.zero(res.At(0).Type())
	}
	return in.zero(res)
}

func (fr *frame) runDefers() {
	for len(fr.defers) > 0 {
		d := fr.defers[len(fr.defers)-1]
		fr.defers = fr.defers[:len(fr.defers)-1]
		d()
	}
	if fr.panicking {
		panic(fr.panicVal)
	}
}

type cont int

const (
	kNext cont = iota
	kReturn
	kJump
)

func (in *Interp) prepareCall(fr *frame, c *ssa.CallCommon) (Value, []Value) {
	if c.Method == nil {
		var args []Value
		for _, a := range c.Args {
			args = append(args, fr.get(a))
		}
		return fr.get(c.Value), args
	}
	recv := fr.get(c.Value).(IfaceV)
	if recv.T == nil {
		in.goPanicRuntime("invalid memory address or nil pointer dereference (method call on nil interface)")
	}
	m := in.prog.LookupMethod(recv.T, c.Method.Pkg(), c.Method.Name())
	if m == nil {
		panic(fmt.Sprintf("no method %s on %v", c.Method.Name(), recv.T))
	}
	args := []Value{recv.V}
	for _, a := range c.Args {
		args = append(args, fr.get(a))
	}
	return &FuncV{Fn: m}, args
}

func (in *Interp) doCall(fr *frame, c *ssa.CallCommon, site ssa.Instruction) Value {
	if b, ok := c.Value.(*ssa.Builtin); ok {
		var args []Value
		for _, a := range c.Args {
			args = append(args, fr.get(a))
		}
		return in.callBuiltin(fr, b, args, c)
	}
	fn, args := in.prepareCall(fr, c)
	return in.callValue(fr, fn, args, site)
}

func (in *Interp) visit(fr *frame, instr ssa.Instruction) cont {
	st := in.st
	switch ins := instr.(type) {
	case *ssa.DebugRef:
	case *ssa.UnOp:
		fr.env[fr.idx[ins]] = in.unop(fr, ins)
	case *ssa.BinOp:
		fr.env[fr.idx[ins]] = in.binop(ins.Op, ins.X.Type(), ins.Y.Type(), fr.get(ins.X), fr.get(ins.Y))
	case *ssa.Call:
		fr.env[fr.idx[ins]] = in.doCall(fr, &ins.Call, ins)
		in.cur = fr
	case *ssa.ChangeInterface:
		fr.env[fr.idx[ins]] = fr.get(ins.X)
	case *ssa.ChangeType:
		fr.env[fr.idx[ins]] = fr.get(ins.X)
	case *ssa.Convert:
		fr.env[fr.idx[ins]] = in.convert(ins.X.Type(), ins.Type(), fr.get(ins.X))
	case *ssa.MultiConvert:
		fr.env[fr.idx[ins]] = in.convert(ins.X.Type(), ins.Type(), fr.get(ins.X))
	case *ssa.SliceToArrayPointer:
		s := fr.get(ins.X).(SliceV)
		at := ins.Type().(*types.Pointer).Elem().Underlying().(*types.Array)
		if int(at.Len()) > s.Len {
			in.goPanicRuntime("cannot convert slice to array pointer: length too short")
		}
		if s.C == nil {
			fr.env[fr.idx[ins]] = PtrV{}
		} else {
			fr.env[fr.idx[ins]] = PtrV{C: s.C, Off: s.Off}
		}
	case *ssa.MakeInterface:
		fr.env[fr.idx[ins]] = IfaceV{T: ins.X.Type(), V: fr.get(ins.X)}
	case *ssa.Extract:
		fr.env[fr.idx[ins]] = fr.get(ins.Tuple).(TupleV)[ins.Index]
	case *ssa.Slice:
		fr.env[fr.idx[ins]] = in.sliceOp(fr, ins)
	case *ssa.Return:
		switch len(ins.Results) {
		case 0:
		case 1:
			fr.result = fr.get(ins.Results[0])
		default:
			var res TupleV
			for _, r := range ins.Results {
				res = append(res, fr.get(r))
			}
			fr.result = res
		}
		fr.block = nil
		return kReturn
	case *ssa.RunDefers:
		fr.runDefers()
	case *ssa.Panic:
		v := fr.get(ins.X)
		panic(goPanic{val: v, msg: in.describePanic(v), site: in.site()})
	case *ssa.Send:
		in.chanSend(fr.get(ins.Chan).(*ChanV), fr.get(ins.X))
	case *ssa.Store:
		in.raceAccess(fr, fr.get(ins.Addr).(PtrV), ins.Val.Type(), true)
		in.store(fr.get(ins.Addr).(PtrV), ins.Val.Type(), fr.get(ins.Val))
	case *ssa.If:
		c := fr.get(ins.Cond).(*Term)
		succ := 1
		if in.branch(c) {
			succ = 0
		}
		fr.prev, fr.block = fr.block, fr.block.Succs[succ]
		return kJump
	case *ssa.Jump:
		fr.prev, fr.block = fr.block, fr.block.Succs[0]
		return kJump
	case *ssa.Defer:
		fn, args := in.prepareDeferCall(fr, &ins.Call)
		fr.defers = append(fr.defers, func() { fn(args) })
	case *ssa.Go:
		fnv, args := in.prepareCall(fr, &ins.Call)
		in.spawn(func() { in.callValue(nil, fnv, args, ins) }, "go@"+in.site())
	case *ssa.MakeChan:
		n := in.mustConst(fr.get(ins.Size).(*Term), "chan size")
		in.nextID++
		fr.env[fr.idx[ins]] = &ChanV{id: in.nextID, cap: int(n), et: ins.Type().Underlying().(*types.Chan).Elem()}
	case *ssa.Alloc:
		t := ins.Type().(*types.Pointer).Elem()
		fr.env[fr.idx[ins]] = PtrV{C: in.newCell(t)}
	case *ssa.MakeSlice:
		et := ins.Type().Underlying().(*types.Slice).Elem()
		n := in.allocSize(fr.get(ins.Len).(*Term), sizeof(et), "make([]T, len)")
		c := n
		if ins.Cap != ins.Len {
			c = in.allocSize(fr.get(ins.Cap).(*Term), sizeof(et), "make([]T, _, cap)")
		}
		if n < 0 || c < n {
			in.goPanicRuntime("makeslice: len out of range")
		}
		fr.env[fr.idx[ins]] = SliceV{C: in.newArrayCell(et, int(c)), Len: int(n), Cap: int(c)}
	case *ssa.MakeMap:
		mt := ins.Type().Underlying().(*types.Map)
		in.nextID++
		fr.env[fr.idx[ins]] = &MapV{id: in.nextID, kt: mt.Key(), vt: mt.Elem()}
	case *ssa.Range:
		fr.env[fr.idx[ins]] = in.rangeIter(fr.get(ins.X), ins.X.Type())
	case *ssa.Next:
		fr.env[fr.idx[ins]] = fr.get(ins.Iter).(*iter).next(in)
	case *ssa.FieldAddr:
		p := fr.get(ins.X).(PtrV)
		if p.C == nil {
			in.goPanicRuntime("invalid memory address or nil pointer dereference")
		}
		if p.C.kind == cFlat {
			su := ins.X.Type().Underlying().(*types.Pointer).Elem().Underlying().(*types.Struct)
			fr.env[fr.idx[ins]] = PtrV{C: p.C, Off: p.Off + fieldOffsets(su)[ins.Field], Sym: p.Sym}
		} else if p.C.kind == cKids {
			fr.env[fr.idx[ins]] = PtrV{C: p.C.Kids[ins.Field]}
		} else {
			panic(fmt.Sprintf("FieldAddr on scalar cell of type %v", p.C.T))
		}
	case *ssa.Field:
		fr.env[fr.idx[ins]] = fr.get(ins.X).(StructV)[ins.Field]
	case *ssa.IndexAddr:
		fr.env[fr.idx[ins]] = in.indexAddr(fr, ins)
	case *ssa.Index:
		fr.env[fr.idx[ins]] = in.indexOp(fr, ins)
	case *ssa.Lookup:
		fr.env[fr.idx[ins]] = in.lookup(fr, ins)
	case *ssa.MapUpdate:
		m := fr.get(ins.Map).(*MapV)
		if m == nil {
			panic(goPanic{msg: "assignment to entry in nil map", site: in.site()})
		}
		in.raceMap(fr, m, true)
		in.mapSet(m, fr.get(ins.Key), fr.get(ins.Value))
	case *ssa.TypeAssert:
		fr.env[fr.idx[ins]] = in.typeAssert(fr, ins)
	case *ssa.MakeClosure:
		var env []Value
		for _, b := range ins.Bindings {
			env = append(env, fr.get(b))
		}
		fr.env[fr.idx[ins]] = &FuncV{Fn: ins.Fn.(*ssa.Function), Env: env}
	case *ssa.Phi:
		panic("unexpected phi")
	case *ssa.Select:
		fr.env[fr.idx[ins]] = in.selectOp(fr, ins)
	default:
		in.unsupported(fmt.Sprintf("instruction %T", instr))
	}
	_ = st
	return kNext
}

func (in *Interp) describePanic(v Value) string {
	if i, ok := v.(IfaceV); ok {
		if s, ok := i.V.(StrV); ok {
			if cs, ok := concStr(s); ok {
				return "panic: " + cs
			}
		}
		if i.T != nil {
			return "panic: value of type " + i.T.String()
		}
	}
	return "panic"
}

func (in *Interp) prepareDeferCall(fr *frame, c *ssa.CallCommon) (func([]Value), []Value) {
	if b, ok := c.Value.(*ssa.Builtin); ok {
		var args []Value
		for _, a := range c.Args {
			args = append(args, fr.get(a))
		}
		return func(a []Value) { in.callBuiltin(fr, b, a, c) }, args
	}
	fnv, args := in.prepareCall(fr, c)
	return func(a []Value) { in.callValue(fr, fnv, a, nil); in.cur = fr }, args
}

// allocSize concretises an allocation length, checking the allocation ceiling first.
func (in *Interp) allocSize(n *Term, esz int, what string) int64 {
	if n.IsConst() {
		v := sx(n.Val, n.W)
		if in.cfg.AllocCeiling > 0 && esz > 0 && v > in.cfg.AllocCeiling/int64(esz) {
			in.implicitViolation("alloc-ceiling", fmt.Sprintf("%s requests %d elements of %d bytes (ceiling %d bytes)", what, v, esz, in.cfg.AllocCeiling))
		}
		return v
	}
	if n.W < 64 {
		n = in.st.Sext(n, 64)
	}
	neg0 := in.st.Slt(n, in.st.Const(0, 64))
	if in.branch(neg0) {
		in.goPanicRuntime("makeslice: len out of range")
	}
	if in.cfg.AllocCeiling > 0 && esz > 0 {
		lim := in.st.Const(uint64(in.cfg.AllocCeiling/int64(esz)), 64)
		if in.branch(in.st.Slt(lim, n)) {
			in.implicitViolation("alloc-ceiling", fmt.Sprintf("%s: requested size can exceed the ceiling of %d bytes", what, in.cfg.AllocCeiling))
		}
	}
	neg := in.st.Slt(n, in.st.Const(0, 64))
	if in.branch(neg) {
		in.goPanicRuntime("makeslice: len out of range")
	}
	return in.concretize(n, what)
}

// implicitViolation ends the path with a violation of an implicit assertion.
// implicitViolationAt keeps the site the caller has set.
func (in *Interp) implicitViolationAt(label, msg string) {
	in.out.Label = label
	in.out.Msg = msg
	if in.out.Model == nil {
		r, m := in.sol.Check(nil, true, in.st.Vars)
		if r == Sat {
			in.out.Model = m
		}
	}
	panic(abort{kind: "violation", msg: msg})
}

func (in *Interp) implicitViolation(label, msg string) {
	in.out.Label = label
	in.out.Msg = msg
	in.out.Site = in.site()
	if in.out.Model == nil {
		r, m := in.sol.Check(nil, true, in.st.Vars)
		if r == Sat {
			in.out.Model = m
		}
	}
	panic(abort{kind: "violation", msg: msg})
}

// ---------------------------------------------------------------- unop / load

func (in *Interp) unop(fr *frame, ins *ssa.UnOp) Value {
	x := fr.get(ins.X)
	st := in.st
	switch ins.Op {
	case token.MUL:
		p := x.(PtrV)
		if p.C != nil && strings.HasPrefix(p.C.name, "!uninit:") {
			in.unsupported("read of global of a package whose init is not interpreted: " + p.C.name[8:])
		}
		in.raceAccess(fr, p, ins.Type(), false)
		return in.load(p, ins.Type())
	case token.NOT:
		return st.BNot(x.(*Term))
	case token.SUB:
		t := x.(*Term)
		if isFloat(ins.Type()) {
			if !t.IsConst() {
				in.unsupported("symbolic float negation")
			}
			return in.floatConst(-in.floatVal(t), t.W)
		}
		return st.Neg(t)
	case token.XOR:
		return st.Not(x.(*Term))
	case token.ARROW:
		v, ok := in.chanRecv(x.(*ChanV))
		if ins.CommaOk {
			return TupleV{v, st.Bool(ok)}
		}
		return v
	}
	panic(fmt.Sprintf("unop %v", ins.Op))
}

func (in *Interp) floatVal(t *Term) float64 {
	if t.W == 32 {
		return float64(math.Float32frombits(uint32(t.Val)))
	}
	return math.Float64frombits(t.Val)
}

func (in *Interp) floatConst(f float64, w int) *Term {
	if w == 32 {
		return in.st.Const(uint64(math.Float32bits(float32(f))), 32)
	}
	return in.st.Const(math.Float64bits(f), 64)
}

// ---------------------------------------------------------------- slices & indexing

func (in *Interp) checkIndex(idx *Term, n int, what string) {
	// idx is 64-bit (signed int). in bounds iff idx <u n
	inb := in.st.Ult(idx, in.st.Const(uint64(n), 64))
	if !in.branch(inb) {
		in.goPanicRuntime(fmt.Sprintf("index out of range [%s] with length %d", what, n))
	}
}

func (in *Interp) idx64(v Value, t types.Type) *Term {
	x := v.(*Term)
	if x.W == 64 {
		return x
	}
	_, signed := intType(t)
	return in.st.Resize(x, 64, signed)
}

func (in *Interp) indexAddr(fr *frame, ins *ssa.IndexAddr) Value {
	x := fr.get(ins.X)
	idx := in.idx64(fr.get(ins.Index), ins.Index.Type())
	et := ins.Type().(*types.Pointer).Elem()
	switch v := x.(type) {
	case SliceV:
		in.checkIndex(idx, v.Len, "slice")
		if v.C.kind == cFlat {
			es := sizeof(et)
			if idx.IsConst() {
				return PtrV{C: v.C, Off: v.Off + int(idx.Val)*es}
			}
			if v.Len <= 64 && in.onlyLoadsStores(ins) {
				return PtrV{C: v.C, Off: v.Off, Sym: &symIdx{idx: idx, stride: es, n: v.Len}}
			}
			i := in.concretize(idx, "slice index")
			return PtrV{C: v.C, Off: v.Off + int(i)*es}
		}
		i := in.mustConst(idx, "slice index")
		return PtrV{C: v.C.Kids[v.Off+int(i)]}
	case PtrV: // *array
		if v.C == nil {
			in.goPanicRuntime("nil pointer dereference")
		}
		at := ins.X.Type().Underlying().(*types.Pointer).Elem().Underlying().(*types.Array)
		n := int(at.Len())
		in.checkIndex(idx, n, "array")
		if v.C.kind == cFlat {
			es := sizeof(et)
			if idx.IsConst() {
				return PtrV{C: v.C, Off: v.Off + int(idx.Val)*es, Sym: v.Sym}
			}
			if v.Sym == nil && n <= 256 && in.onlyLoadsStores(ins) {
				return PtrV{C: v.C, Off: v.Off, Sym: &symIdx{idx: idx, stride: es, n: n}}
			}
			i := in.concretize(idx, "array index")
			return PtrV{C: v.C, Off: v.Off + int(i)*es, Sym: v.Sym}
		}
		i := in.mustConst(idx, "array index")
		return PtrV{C: v.C.Kids[v.Off+int(i)]}
	}
	panic(fmt.Sprintf("indexAddr on %T", x))
}

// onlyLoadsStores reports whether the address is used only by direct loads and stores.
func (in *Interp) onlyLoadsStores(v ssa.Value) bool {
	refs := v.Referrers()
	if refs == nil {
		return false
	}
	for _, r := range *refs {
		switch r := r.(type) {
		case *ssa.UnOp:
			if r.Op != token.MUL {
				return false
			}
		case *ssa.Store:
			if r.Addr != v {
				return false
			}
		case *ssa.DebugRef:
		default:
			return false
		}
	}
	return true
}

func (in *Interp) indexOp(fr *frame, ins *ssa.Index) Value {
	x := fr.get(ins.X)
	idx := in.idx64(fr.get(ins.Index), ins.Index.Type())
	switch v := x.(type) {
	case ArrayV:
		in.checkIndex(idx, len(v), "array")
		if idx.IsConst() {
			return v[idx.Val]
		}
		var r Value
		for i := len(v) - 1; i >= 0; i-- {
			if r == nil {
				r = v[i]
				continue
			}
			r = in.iteValue(in.st.Eq(idx, in.st.Const(uint64(i), 64)), v[i], r)
		}
		return r
	case StrV:
		return in.strIndex(v, idx)
	}
	panic(fmt.Sprintf("index on %T", x))
}

func (in *Interp) strIndex(v StrV, idx *Term) Value {
	in.checkIndex(idx, len(v.B), "string")
	if idx.IsConst() {
		return v.B[idx.Val]
	}
	if len(v.B) > 512 {
		i := in.concretize(idx, "string index")
		return v.B[i]
	}
	var r *Term
	for i := len(v.B) - 1; i >= 0; i-- {
		if r == nil {
			r = v.B[i]
			continue
		}
		r = in.st.Ite(in.st.Eq(idx, in.st.Const(uint64(i), 64)), v.B[i], r)
	}
	return r
}

func (in *Interp) sliceOp(fr *frame, ins *ssa.Slice) Value {
	x := fr.get(ins.X)
	getb := func(v ssa.Value, def int) int {
		if v == nil {
			return def
		}
		t := in.idx64(fr.get(v), v.Type())
		if t.IsConst() {
			return int(sx(t.Val, 64))
		}
		return int(in.concretize(t, "slice bound"))
	}
	switch v := x.(type) {
	case StrV:
		lo := getb(ins.Low, 0)
		hi := getb(ins.High, len(v.B))
		if lo < 0 || hi < lo || hi > len(v.B) {
			in.goPanicRuntime(fmt.Sprintf("slice bounds out of range [%d:%d] with length %d", lo, hi, len(v.B)))
		}
		return StrV{B: v.B[lo:hi:hi]}
	case SliceV:
		lo := getb(ins.Low, 0)
		hi := getb(ins.High, v.Len)
		mx := getb(ins.Max, v.Cap)
		if lo < 0 || hi < lo || mx < hi || mx > v.Cap {
			in.goPanicRuntime(fmt.Sprintf("slice bounds out of range [%d:%d:%d] with capacity %d", lo, hi, mx, v.Cap))
		}
		if v.C == nil {
			return SliceV{}
		}
		es := 1
		if v.C.kind == cFlat {
			es = sizeof(ins.Type().Underlying().(*types.Slice).Elem())
		}
		return SliceV{C: v.C, Off: v.Off + lo*es, Len: hi - lo, Cap: mx - lo}
	case PtrV: // *array
		if v.C == nil {
			in.goPanicRuntime("nil pointer dereference")
		}
		at := ins.X.Type().Underlying().(*types.Pointer).Elem().Underlying().(*types.Array)
		n := int(at.Len())
		lo := getb(ins.Low, 0)
		hi := getb(ins.High, n)
		mx := getb(ins.Max, n)
		if lo < 0 || hi < lo || mx < hi || mx > n {
			in.goPanicRuntime(fmt.Sprintf("slice bounds out of range [%d:%d:%d] with array length %d", lo, hi, mx, n))
		}
		es := 1
		if v.C.kind == cFlat {
			es = sizeof(at.Elem())
		}
		return SliceV{C: v.C, Off: v.Off + lo*es, Len: hi - lo, Cap: mx - lo}
	}
	panic(fmt.Sprintf("slice of %T", x))
}

// ---------------------------------------------------------------- type assertions

func (in *Interp) implements(t types.Type, it *types.Interface) bool {
	return types.Implements(t, it)
}

func (in *Interp) typeAssert(fr *frame, ins *ssa.TypeAssert) Value {
	v := fr.get(ins.X).(IfaceV)
	var ok bool
	if v.T != nil {
		if it, isI := ins.AssertedType.Underlying().(*types.Interface); isI {
			ok = in.implements(v.T, it)
		} else {
			ok = types.Identical(v.T, ins.AssertedType)
		}
	}
	var res Value
	if _, isI := ins.AssertedType.Underlying().(*types.Interface); isI {
		if ok {
			res = v
		} else {
			res = IfaceV{}
		}
	} else {
		if ok {
			res = v.V
		} else {
			res = in.zero(ins.AssertedType)
		}
	}
	if ins.CommaOk {
		return TupleV{res, in.st.Bool(ok)}
	}
	if !ok {
		panic(goPanic{msg: fmt.Sprintf("interface conversion: %v is not %v", v.T, ins.AssertedType), site: in.site()})
	}
	return res
}

// ---------------------------------------------------------------- range

type iter struct {
	kind int // 0 string, 1 map
	s    StrV
	m    *MapV
	pos  int
	snap []*mapEntry
}

func (in *Interp) rangeIter(x Value, t types.Type) Value {
	switch v := x.(type) {
	case StrV:
		return &iter{kind: 0, s: v}
	case *MapV:
		it := &iter{kind: 1, m: v}
		if v != nil {
			it.snap = append(it.snap, v.entries...)
		}
		return it
	}
	panic(fmt.Sprintf("range over %T", x))
}

func (it *iter) next(in *Interp) Value {
	st := in.st
	if it.kind == 1 {
		for it.pos < len(it.snap) {
			e := it.snap[it.pos]
			it.pos++
			if e.deleted {
				continue
			}
			return TupleV{st.True, e.k, e.v}
		}
		var k, v Value
		if it.m != nil {
			k, v = in.zero(it.m.kt), in.zero(it.m.vt)
		} else {
			k, v = st.Const(0, 64), st.Const(0, 64)
		}
		return TupleV{st.False, k, v}
	}
	if it.pos >= len(it.s.B) {
		return TupleV{st.False, st.Const(0, 64), st.Const(0, 32)}
	}
	i := it.pos
	b := it.s.B[i]
	if !b.IsConst() {
		// symbolic byte: ASCII fast path, otherwise outside the model
		if in.branch(st.Ult(b, st.Const(0x80, 8))) {
			it.pos++
			return TupleV{st.True, st.Const(uint64(i), 64), st.Zext(b, 32)}
		}
		in.unsupported("range over string with symbolic non-ASCII byte")
	}
	if b.Val < 0x80 {
		it.pos++
		return TupleV{st.True, st.Const(uint64(i), 64), st.Const(b.Val, 32)}
	}
	// decode natively when the whole sequence is concrete
	var buf []byte
	for j := i; j < len(it.s.B) && j < i+4; j++ {
		if !it.s.B[j].IsConst() {
			break
		}
		buf = append(buf, byte(it.s.B[j].Val))
	}
	r, size := decodeRune(buf)
	it.pos += size
	return TupleV{st.True, st.Const(uint64(i), 64), st.Const(uint64(r), 32)}
}
