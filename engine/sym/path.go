package sym

import (
	"fmt"
	"sort"
	"strings"
)

// Decision is one resolved nondeterministic point on a path.
type Decision struct {
	N      int    `json:"n"`           // chosen alternative
	Val    uint64 `json:"v,omitempty"` // payload (concretised value)
	Forced bool   `json:"f,omitempty"` // no sibling exists
	Kind   string `json:"k,omitempty"` // br | ch | cz
	Label  string `json:"l,omitempty"`
}

// abort is raised (as a Go panic) to end the current path.
type abort struct {
	kind string // infeasible | unwind | unsupported | violation | outside | done
	msg  string
}

// goPanic is a panic of the interpreted program.
type goPanic struct {
	val  Value
	msg  string
	site string
}

type Observe struct {
	Label string   `json:"label"`
	Vals  []string `json:"vals"`
}

// Outcome summarises one completed path.
type Outcome struct {
	Kind      string            `json:"kind"` // ok | violation | unwind | unsupported | outside | infeasible | unknown
	Label     string            `json:"label,omitempty"`
	Msg       string            `json:"msg,omitempty"`
	Site      string            `json:"site,omitempty"`
	Decisions []Decision        `json:"decisions"`
	Model     map[string]uint64 `json:"model,omitempty"`
	Widths    map[string]int    `json:"widths,omitempty"`
	Observes  []Observe         `json:"observes,omitempty"`
	Steps     int64             `json:"steps"`
	Queries   int               `json:"queries"`
	Asserts   map[string]int    `json:"asserts,omitempty"` // label -> times checked
	Unknowns  int               `json:"unknowns,omitempty"`
	SymAssert int               `json:"sym_asserts"` // assertion queries that went to the solver
	SymVars   int               `json:"sym_vars"`
	Cross     []CrossQuery      `json:"-"`
	Stubs     map[string]int    `json:"-"`
	Funcs     map[string]int    `json:"-"`
	Choices   string            `json:"choices,omitempty"`
	Bounds    map[string]string `json:"-"`
	Ms        int64             `json:"ms"`
}

// CrossQuery is the full SMT-LIB transcript of one assertion query and the verdict of the primary solver.
type CrossQuery struct {
	Label   string
	Script  string
	Verdict Result
}

// pathState holds the decision cursor of the running path.
type pathState struct {
	prefix   []Decision
	pos      int
	taken    []Decision
	pc       []*Term
	siblings [][]Decision // prefixes to enqueue
	unknowns int
	choices  []string
}

func (p *pathState) replaying() bool { return p.pos < len(p.prefix) }

func (p *pathState) next() Decision {
	d := p.prefix[p.pos]
	p.pos++
	p.taken = append(p.taken, d)
	return d
}

func (p *pathState) record(d Decision, alts []Decision) {
	p.taken = append(p.taken, d)
	base := p.taken[:len(p.taken)-1]
	for _, a := range alts {
		np := make([]Decision, len(base)+1)
		copy(np, base)
		np[len(base)] = a
		p.siblings = append(p.siblings, np)
	}
}

func (in *Interp) assertPC(t *Term) {
	if t.IsConst() {
		if t.Val == 0 {
			panic(abort{kind: "infeasible", msg: "constant false path condition"})
		}
		return
	}
	in.ps.pc = append(in.ps.pc, t)
	in.sol.Assert(t)
	in.learn(t, true)
}

// feasible asks the solver whether PC ∧ t is satisfiable; unknown counts as feasible.
func (in *Interp) feasible(t *Term) bool {
	if t.IsConst() {
		return t.Val != 0
	}
	switch in.quick(t) {
	case 1:
		in.quickHits++
		return true
	case -1:
		in.quickHits++
		return false
	}
	r, _ := in.sol.Check(t, false, nil)
	in.out.Queries++
	if r == Unknown {
		in.ps.unknowns++
		in.out.Unknowns++
		return true
	}
	return r == Sat
}

// branch resolves a symbolic condition, forking when both sides are feasible.
func (in *Interp) branch(c *Term) bool {
	if c.W != 0 {
		panic("branch on non-bool")
	}
	if c.IsConst() {
		return c.Val != 0
	}
	ps := in.ps
	if ps.replaying() {
		d := ps.next()
		if d.Kind != "br" {
			panic(fmt.Sprintf("replay divergence: expected br, have %q at %d (%s)", d.Kind, ps.pos-1, in.where()))
		}
		if d.N == 1 {
			in.assertPC(c)
			return true
		}
		in.assertPC(in.st.BNot(c))
		return false
	}
	if in.cfg.NoFork {
		in.unsupported("symbolic branch in no-fork mode at " + in.where())
	}
	t := in.feasible(c)
	var f bool
	if !t {
		f = true // PC is feasible, so the other side must be
	} else {
		f = in.feasible(in.st.BNot(c))
	}
	switch {
	case t && f:
		ps.record(Decision{N: 1, Kind: "br"}, []Decision{{N: 0, Kind: "br"}})
		in.assertPC(c)
		return true
	case t:
		ps.record(Decision{N: 1, Kind: "br", Forced: true}, nil)
		in.assertPC(c)
		return true
	default:
		ps.record(Decision{N: 0, Kind: "br", Forced: true}, nil)
		in.assertPC(in.st.BNot(c))
		return false
	}
}

// choice picks one of n alternatives nondeterministically.
func (in *Interp) choice(n int, label string) int {
	if n <= 1 {
		return 0
	}
	ps := in.ps
	var k int
	if ps.replaying() {
		d := ps.next()
		if d.Kind != "ch" {
			panic(fmt.Sprintf("replay divergence: expected ch, have %q (%s)", d.Kind, in.where()))
		}
		k = d.N
	} else {
		var alts []Decision
		for i := 1; i < n; i++ {
			alts = append(alts, Decision{N: i, Kind: "ch", Label: label})
		}
		ps.record(Decision{N: 0, Kind: "ch", Label: label}, alts)
	}
	ps.choices = append(ps.choices, fmt.Sprintf("%s=%d", label, k))
	return k
}

// concretize turns a symbolic integer into a concrete one by forking over its
// feasible values below cfg.MaxConcretize; larger values form one path that is cut
// as outside the bound (unless the value is unique on this path).
func (in *Interp) concretize(t *Term, what string) int64 {
	if t.IsConst() {
		return sx(t.Val, t.W)
	}
	st := in.st
	k := uint64(in.cfg.MaxConcretize)
	small := st.Ult(t, st.Const(k, t.W))
	if !in.branch(small) {
		// t >= K on this path: acceptable only when it is pinned to a single value
		ps := in.ps
		if ps.replaying() {
			d := ps.next()
			if d.Kind != "cu" {
				panic(fmt.Sprintf("replay divergence: expected cu, have %q (%s)", d.Kind, in.where()))
			}
			in.assertPC(st.Eq(t, st.Const(d.Val, t.W)))
			return sx(d.Val, t.W)
		}
		r, m := in.sol.Check(nil, true, []*Term{t})
		in.out.Queries++
		if r == Sat {
			v := modelOf(m, t)
			if !in.feasible(st.Ne(t, st.Const(v, t.W))) {
				ps.record(Decision{N: 1, Val: v, Kind: "cu", Forced: true}, nil)
				in.assertPC(st.Eq(t, st.Const(v, t.W)))
				return sx(v, t.W)
			}
		}
		in.out.Msg = fmt.Sprintf("%s can be >= %d at %s", what, k, in.site())
		panic(abort{kind: "outside", msg: in.out.Msg})
	}
	// enumerate the values below K
	ps := in.ps
	for v := uint64(0); v < k; v++ {
		c := st.Const(v, t.W)
		eq := st.Eq(t, c)
		if ps.replaying() {
			d := ps.next()
			if d.Kind != "cz" {
				panic(fmt.Sprintf("replay divergence: expected cz, have %q (%s)", d.Kind, in.where()))
			}
			v = d.Val
			if d.N == 1 {
				in.assertPC(st.Eq(t, st.Const(v, t.W)))
				return sx(v, t.W)
			}
			in.assertPC(st.Ne(t, st.Const(v, t.W)))
			continue
		}
		if !in.feasible(eq) {
			in.assertPC(st.BNot(eq))
			continue
		}
		other := in.feasible(st.BNot(eq))
		if other {
			ps.record(Decision{N: 1, Val: v, Kind: "cz"}, []Decision{{N: 0, Val: v, Kind: "cz"}})
		} else {
			ps.record(Decision{N: 1, Val: v, Kind: "cz", Forced: true}, nil)
		}
		in.assertPC(eq)
		return sx(v, t.W)
	}
	panic(abort{kind: "infeasible", msg: "no value left for " + what})
}

func modelOf(m map[string]uint64, t *Term) uint64 {
	if t.Op == OVar {
		return m[t.Name]
	}
	return m["t"+fmt.Sprint(t.ID)]
}

// minimise lowers a model value towards the smallest feasible one (unsigned
// magnitude), with a handful of probes.
func (in *Interp) minimise(t *Term, v uint64) uint64 {
	if v <= 64 {
		return v
	}
	st := in.st
	lo, hi := uint64(0), v
	for i := 0; i < 8 && lo < hi; i++ {
		mid := lo + (hi-lo)/2
		r, m := in.sol.Check(st.Ule(t, st.Const(mid, t.W)), true, []*Term{t})
		in.out.Queries++
		if r == Sat {
			if t.Op == OVar {
				hi = m[t.Name]
			} else {
				hi = m["t"+fmt.Sprint(t.ID)]
			}
		} else {
			lo = mid + 1
		}
	}
	return hi
}

func decisionsKey(ds []Decision) string {
	var sb strings.Builder
	for _, d := range ds {
		fmt.Fprintf(&sb, "%s%d", d.Kind[:1], d.N)
		if d.Kind == "cz" {
			fmt.Fprintf(&sb, ":%d", d.Val)
		}
		sb.WriteByte('.')
	}
	return sb.String()
}

func sortedKeys(m map[string]int) []string {
	var ks []string
	for k := range m {
		ks = append(ks, k)
	}
	sort.Strings(ks)
	return ks
}
