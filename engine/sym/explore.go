package sym

import (
	"fmt"
	"go/types"
	"os"
	"runtime/debug"
	"sort"
	"strings"
	"sync"
	"time"

	"golang.org/x/tools/go/packages"
	"golang.org/x/tools/go/ssa"
	"golang.org/x/tools/go/ssa/ssautil"
)

// World is one loaded SSA program (one build-tag configuration).
type World struct {
	Prog      *ssa.Program
	Pkgs      []*packages.Package
	Tags      string
	mu        sync.Mutex
	typeCache map[string]types.Type
	slots     sync.Map
	LoadTime  time.Duration
}

// Load builds the SSA program for the given patterns under dir.
func Load(dir string, tags string, overlay map[string][]byte, patterns ...string) (*World, error) {
	start := time.Now()
	cfg := &packages.Config{
		Mode:       packages.LoadAllSyntax,
		Dir:        dir,
		Overlay:    overlay,
		BuildFlags: []string{"-tags=" + tags},
		Env:        append(os.Environ(), "GOFLAGS=-mod=mod", "GOPROXY=off", "GOSUMDB=off", "GOTOOLCHAIN=local"),
	}
	pkgs, err := packages.Load(cfg, patterns...)
	if err != nil {
		return nil, err
	}
	var errs []string
	packages.Visit(pkgs, nil, func(p *packages.Package) {
		for _, e := range p.Errors {
			errs = append(errs, e.Error())
		}
	})
	if len(errs) > 0 {
		return nil, fmt.Errorf("package errors:\n%s", strings.Join(errs, "\n"))
	}
	prog, _ := ssautil.AllPackages(pkgs, ssa.InstantiateGenerics)
	prog.Build()
	return &World{Prog: prog, Pkgs: pkgs, Tags: tags, typeCache: map[string]types.Type{}, LoadTime: time.Since(start)}, nil
}

// FindFunc looks up a package-level function "pkgpath.Name".
func (w *World) FindFunc(pkgPath, name string) *ssa.Function {
	p := w.Prog.ImportedPackage(pkgPath)
	if p == nil {
		return nil
	}
	return p.Func(name)
}

// HarnessSpec names one entry point and its engine configuration.
type HarnessSpec struct {
	Pkg      string
	Func     string
	Cfg      Config
	Workers  int
	MaxPaths int
	// StopAfterViolations ends the exploration once that many violating paths were found (0: never):
	// a change that breaks the property on most paths is then reported in minutes instead of
	// exhausting the path space of its wreckage
	StopAfterViolations int
	Solver   string
	Witness  int // number of ok paths for which a model is extracted
	Deadline time.Time
	Dual     *World // second program: the harness is run in both and their emits compared
}

// Report aggregates all paths of one harness.
type Report struct {
	Harness    string            `json:"harness"`
	Tags       string            `json:"tags"`
	Paths      int               `json:"paths"`
	Kinds      map[string]int    `json:"kinds"`
	Steps      int64             `json:"steps"`
	Queries    int               `json:"queries"`
	SymAsserts int               `json:"sym_asserts"`
	Unknowns   int               `json:"unknowns"`
	SolverS    float64           `json:"solver_s"`
	WallS      float64           `json:"wall_s"`
	Asserts    map[string]int    `json:"asserts"`
	Labels     []string          `json:"labels_declared"`
	Funcs      []string          `json:"functions_encoded"`
	Stubs      []string          `json:"stubs_hit"`
	Bounds     map[string]string `json:"bounds"`
	Violations []*Outcome        `json:"violations,omitempty"`
	Problems   []*Outcome        `json:"problems,omitempty"` // unwind/unsupported/unknown/engine-error
	Outside    []*Outcome        `json:"outside,omitempty"`
	Samples    []*Outcome        `json:"samples,omitempty"`
	Witnesses  []*Outcome        `json:"-"`
	SolverErrs []string          `json:"solver_errors,omitempty"`
	Truncated  bool              `json:"truncated,omitempty"`
	NonTrivial int               `json:"nontrivial_paths"`
	Cross      []CrossQuery      `json:"-"`
}

// declaredLabels scans the harness (and harness-file helpers) for assertion labels.
func declaredLabels(fn *ssa.Function, seen map[*ssa.Function]bool, out map[string]bool) {
	if seen[fn] || fn.Blocks == nil {
		return
	}
	seen[fn] = true
	for _, b := range fn.Blocks {
		for _, ins := range b.Instrs {
			c, ok := ins.(ssa.CallInstruction)
			if !ok {
				continue
			}
			callee := c.Common().StaticCallee()
			if callee == nil {
				continue
			}
			if callee.Name() == "verifAssert" {
				if k, ok := c.Common().Args[1].(*ssa.Const); ok && k.Value != nil {
					out[strings.Trim(k.Value.ExactString(), "\"")] = true
				}
				continue
			}
			// follow into harness helpers only (functions defined in zz_verif files)
			if callee.Pos().IsValid() {
				f := fn.Prog.Fset.Position(callee.Pos()).Filename
				if strings.Contains(f, "zz_verif") {
					declaredLabels(callee, seen, out)
				}
			}
		}
	}
	for _, af := range fn.AnonFuncs {
		declaredLabels(af, seen, out)
	}
}

// Explore runs all paths of a harness.
func (w *World) Explore(spec HarnessSpec) (*Report, error) {
	fn := w.FindFunc(spec.Pkg, spec.Func)
	if fn == nil {
		return nil, fmt.Errorf("harness %s.%s not found", spec.Pkg, spec.Func)
	}
	if spec.Workers <= 0 {
		spec.Workers = 8
	}
	if spec.Solver == "" {
		spec.Solver = "z3"
		if spec.Cfg.IntMode {
			// z3 4.8.12 answers unknown on div/mod by large constants; 5.1.0 decides them at once
			spec.Solver = "z3-new"
		}
	}
	cfg := spec.Cfg
	if cfg.MaxSteps == 0 {
		cfg.MaxSteps = 3_000_000
	}
	if cfg.MaxConcretize == 0 {
		cfg.MaxConcretize = 24
	}
	if cfg.MaxLoop == 0 {
		cfg.MaxLoop = 20000
	}
	if cfg.QueryTimeout == 0 {
		cfg.QueryTimeout = 60000
	}
	start := time.Now()
	rep := &Report{Harness: spec.Pkg + "." + spec.Func, Tags: w.Tags, Kinds: map[string]int{}, Asserts: map[string]int{}, Bounds: map[string]string{}}
	lbl := map[string]bool{}
	declaredLabels(fn, map[*ssa.Function]bool{}, lbl)
	for l := range lbl {
		rep.Labels = append(rep.Labels, l)
	}
	sort.Strings(rep.Labels)

	var mu sync.Mutex
	cond := sync.NewCond(&mu)
	stack := [][]Decision{nil}
	active := 0
	funcs := map[string]int{}
	stubs := map[string]int{}
	seenPrefix := map[string]bool{}
	var wg sync.WaitGroup
	var firstErr error
	for wi := 0; wi < spec.Workers; wi++ {
		wg.Add(1)
		go func(wi int) {
			defer wg.Done()
			sol, err := NewSolver(spec.Solver, cfg.QueryTimeout)
			if err == nil {
				sol.IntMode = cfg.IntMode
				if cfg.CrossCheck {
					sol.KeepTrace = true
				}
			}
			if err != nil {
				mu.Lock()
				firstErr = err
				mu.Unlock()
				return
			}
			defer func() {
				mu.Lock()
				rep.SolverS += sol.Time.Seconds()
				rep.SolverErrs = append(rep.SolverErrs, sol.Errors...)
				mu.Unlock()
				sol.Close()
			}()
			for {
				mu.Lock()
				for len(stack) == 0 && active > 0 {
					cond.Wait()
				}
				if len(stack) == 0 {
					mu.Unlock()
					cond.Broadcast()
					return
				}
				if (spec.MaxPaths > 0 && rep.Paths >= spec.MaxPaths) || (!spec.Deadline.IsZero() && time.Now().After(spec.Deadline)) ||
					(spec.StopAfterViolations > 0 && rep.Kinds["violation"] >= spec.StopAfterViolations) {
					rep.Truncated = true
					stack = nil
					mu.Unlock()
					cond.Broadcast()
					return
				}
				prefix := stack[len(stack)-1]
				stack = stack[:len(stack)-1]
				active++
				wantWitness := len(rep.Witnesses) < spec.Witness
				mu.Unlock()

				out, sibs := w.runPath(fn, prefix, &cfg, sol, wantWitness, spec.Dual)

				mu.Lock()
				active--
				for _, s := range sibs {
					k := decisionsKey(s)
					if !seenPrefix[k] {
						seenPrefix[k] = true
						stack = append(stack, s)
					}
				}
				rep.Paths++
				rep.Kinds[out.Kind]++
				rep.Steps += out.Steps
				rep.Queries += out.Queries
				rep.SymAsserts += out.SymAssert
				rep.Unknowns += out.Unknowns
				if out.SymVars > 0 && len(out.Asserts) > 0 {
					rep.NonTrivial++
				}
				for k, v := range out.Asserts {
					rep.Asserts[k] += v
				}
				if len(rep.Cross) < 12 {
					rep.Cross = append(rep.Cross, out.Cross...)
				}
				for k, v := range out.Funcs {
					funcs[k] += v
				}
				for k, v := range out.Stubs {
					stubs[k] += v
				}
				for k, v := range out.Bounds {
					rep.Bounds[k] = v
				}
				switch out.Kind {
				case "ok":
					if len(rep.Samples) < 4 {
						rep.Samples = append(rep.Samples, out)
					}
					if out.Model != nil && len(rep.Witnesses) < spec.Witness {
						rep.Witnesses = append(rep.Witnesses, out)
					}
				case "violation":
					if len(rep.Violations) < 400 {
						rep.Violations = append(rep.Violations, out)
					}
				case "infeasible":
				case "outside":
					if len(rep.Outside) < 5 {
						rep.Outside = append(rep.Outside, out)
					}
				default:
					if len(rep.Problems) < 10 {
						rep.Problems = append(rep.Problems, out)
					}
				}
				mu.Unlock()
				cond.Broadcast()
			}
		}(wi)
	}
	wg.Wait()
	if firstErr != nil {
		return nil, firstErr
	}
	for k := range funcs {
		rep.Funcs = append(rep.Funcs, k)
	}
	sort.Strings(rep.Funcs)
	for k := range stubs {
		rep.Stubs = append(rep.Stubs, k)
	}
	sort.Strings(rep.Stubs)
	rep.WallS = time.Since(start).Seconds()
	return rep, nil
}

func (w *World) newInterp(cfg *Config, sol *Solver, prefix []Decision) *Interp {
	if sol.store == nil || sol.storeUses > 200 || sol.store.next > 400000 {
		sol.store = NewStore()
		sol.storeUses = 0
	}
	sol.storeUses++
	sol.store.NewEpoch()
	in := &Interp{
		prog:       w.Prog,
		st:         sol.store,
		sol:        sol,
		ps:         &pathState{prefix: prefix},
		cfg:        cfg,
		globals:    map[*ssa.Global]*Cell{},
		out:        &Outcome{Asserts: map[string]int{}, Stubs: map[string]int{}, Funcs: map[string]int{}, Bounds: map[string]string{}},
		varCount:   map[string]int{},
		sentinel:   map[string]Value{},
		concrete:   map[string]uint64{},
		ext:        map[string]interface{}{},
		ext2:       map[interface{}]interface{}{},
		world:      w,
		constCache: map[*ssa.Const]Value{},
		strCache:   map[string]StrV{},
		bounds:     map[*Term]*ival{},
	}
	in.growExact = cfg.GrowExact
	in.initSched()
	in.raceInit()
	return in
}

// newInterpShared creates the interpreter of the second program of a dual run: it
// shares terms, solver session, path state and outcome with a.
func (w *World) newInterpShared(a *Interp) *Interp {
	in := &Interp{
		prog: w.Prog, st: a.st, sol: a.sol, ps: a.ps, cfg: a.cfg, globals: map[*ssa.Global]*Cell{}, out: a.out,
		varCount: map[string]int{}, sentinel: map[string]Value{}, concrete: map[string]uint64{}, ext: map[string]interface{}{}, ext2: map[interface{}]interface{}{},
		world: w, constCache: map[*ssa.Const]Value{}, strCache: map[string]StrV{}, bounds: a.bounds,
	}
	in.growExact = a.growExact
	in.nextCell = a.nextCell + 1000000
	in.nextID = a.nextID + 1000000
	return in
}

// runPath executes the harness once along prefix.
func (w *World) runPath(fn *ssa.Function, prefix []Decision, cfg *Config, sol *Solver, wantWitness bool, dual *World) (out *Outcome, sibs [][]Decision) {
	start := time.Now()
	in := w.newInterp(cfg, sol, prefix)
	out = in.out
	q0 := sol.Queries
	sol.BeginPath()
	defer func() {
		r := recover()
		switch e := r.(type) {
		case nil:
			out.Kind = "ok"
			if live := in.liveCoros(); len(live) > 0 && !cfg.AllowLeak {
				out.Kind = "violation"
				out.Label = "goroutine-leak"
				out.Msg = "goroutines still alive when the harness returned: " + strings.Join(live, ",")
			}
		case abort:
			out.Kind = e.kind
			if out.Msg == "" {
				out.Msg = e.msg
			}
			if e.kind == "deadlock" {
				out.Kind = "violation"
				out.Label = "deadlock"
			}
			if e.kind == "unwind" && cfg.UnwindLabel != "" {
				out.Kind = "violation"
				out.Label = cfg.UnwindLabel
			}
		case goPanic:
			out.Kind = "violation"
			out.Label = "panic"
			out.Msg = e.msg
			out.Site = e.site
			for _, wv := range cfg.WaivePanics {
				if strings.Contains(e.msg, wv) {
					out.Kind = "ok"
					out.Label = "waived-panic"
				}
			}
		default:
			out.Kind = "engine-error"
			out.Msg = fmt.Sprintf("%v\n%s\nat %s", r, debug.Stack(), in.where())
		}
		if (out.Kind == "violation" && out.Model == nil) || (out.Kind == "ok" && wantWitness) {
			func() {
				defer func() { recover() }()
				res, m := sol.Check(nil, true, in.st.Vars)
				if res == Sat {
					out.Model = m
				}
			}()
		}
		if out.Model != nil {
			for k, v := range in.concrete {
				out.Model[k] = v
			}
			out.Widths = map[string]int{}
			for _, v := range in.st.Vars {
				out.Widths[v.Name] = v.W
			}
			memo := map[*Term]uint64{}
			for _, o := range in.observes {
				ob := Observe{Label: o.label}
				if o.bytes {
					var sb strings.Builder
					for _, t := range o.terms {
						fmt.Fprintf(&sb, "%02x", Eval(t, out.Model, memo))
					}
					ob.Vals = []string{sb.String()}
				} else {
					for _, t := range o.terms {
						ob.Vals = append(ob.Vals, fmt.Sprint(Eval(t, out.Model, memo)))
					}
				}
				out.Observes = append(out.Observes, ob)
			}
		} else if len(in.concrete) > 0 && out.Kind != "ok" {
			out.Model = map[string]uint64{}
			for k, v := range in.concrete {
				out.Model[k] = v
			}
		}
		in.killCoros()
		out.Decisions = in.ps.taken
		out.SymVars = len(in.st.Vars)
		out.Choices = strings.Join(in.ps.choices, " ")
		out.Steps = in.stats.steps
		out.Queries = sol.Queries - q0
		out.Ms = time.Since(start).Milliseconds()
		sibs = in.ps.siblings
		sol.EndPath()
	}()
	if dual != nil {
		w.runDual(in, fn, dual)
		return
	}
	// package initialisers
	if fn.Pkg != nil {
		if initFn := fn.Pkg.Func("init"); initFn != nil {
			in.callFn(nil, initFn, nil, nil)
		}
	}
	in.callFn(nil, fn, nil, nil)
	return
}

// runSide runs the harness in one program, turning an uncaught Go panic into an emit.
func runSide(in *Interp, fn *ssa.Function) {
	defer func() {
		if r := recover(); r != nil {
			gp, ok := r.(goPanic)
			if !ok {
				panic(r)
			}
			in.emits = append(in.emits, emitRec{label: "panic", text: "panicked"})
			_ = gp
		}
	}()
	if fn.Pkg != nil {
		if initFn := fn.Pkg.Func("init"); initFn != nil {
			in.callFn(nil, initFn, nil, nil)
		}
	}
	in.callFn(nil, fn, nil, nil)
}

// runDual executes the same harness in two programs on the same symbolic inputs
// and asserts that everything they emit is equal.
func (w *World) runDual(a *Interp, fn *ssa.Function, other *World) {
	runSide(a, fn)
	fnB := other.FindFunc(fn.Pkg.Pkg.Path(), fn.Name())
	if fnB == nil {
		panic("dual harness missing in second program")
	}
	b := other.newInterpShared(a)
	b.reuse = a.concrete
	b.co = a.co
	runSide(b, fnB)
	a.in2 = b
	st := a.st
	n := len(a.emits)
	if len(b.emits) != n {
		a.out.Msg = fmt.Sprintf("programs emit %d vs %d values", len(a.emits), len(b.emits))
		if len(b.emits) < n {
			n = len(b.emits)
		}
		// a panic on one side only shows up here
		for i := 0; i < n; i++ {
			if a.emits[i].label != b.emits[i].label {
				break
			}
		}
		a.checkAssert(st.False, "dual:shape")
	}
	for i := 0; i < n; i++ {
		x, y := a.emits[i], b.emits[i]
		if x.label != y.label || len(x.terms) != len(y.terms) || x.text != y.text {
			a.out.Msg = fmt.Sprintf("emit %d differs in shape: %s/%d/%s vs %s/%d/%s", i, x.label, len(x.terms), x.text, y.label, len(y.terms), y.text)
			a.checkAssert(st.False, "dual:shape")
		}
		eq := st.True
		for j := range x.terms {
			eq = st.BAnd(eq, st.Eq(x.terms[j], y.terms[j]))
		}
		a.checkAssert(eq, "dual:"+x.label)
	}
}
