package sym

import (
	"fmt"
	"math/bits"
	"sort"
	"strings"
)

// Op is a term operator.
type Op uint8

const (
	OConst Op = iota
	OVar
	OAdd
	OSub
	OMul
	OUDiv
	OSDiv
	OURem
	OSRem
	OAnd
	OOr
	OXor
	OShl
	OLShr
	OAShr
	ONot
	OEq
	OUlt
	OUle
	OSlt
	OSle
	OSext
	OExtract
	OConcat
	OIte
	OBAnd
	OBOr
	OBNot
	OUF
)

var opNames = map[Op]string{
	OAdd: "bvadd", OSub: "bvsub", OMul: "bvmul", OUDiv: "bvudiv", OSDiv: "bvsdiv", OURem: "bvurem", OSRem: "bvsrem",
	OAnd: "bvand", OOr: "bvor", OXor: "bvxor", OShl: "bvshl", OLShr: "bvlshr", OAShr: "bvashr", ONot: "bvnot",
	OEq: "=", OUlt: "bvult", OUle: "bvule", OSlt: "bvslt", OSle: "bvsle", OIte: "ite", OBAnd: "and", OBOr: "or", OBNot: "not",
	OConcat: "concat",
}

// Term is a hash-consed bit-vector (W>0) or boolean (W==0) expression.
type Term struct {
	ID    int
	Op    Op
	W     int
	Args  []*Term
	Val   uint64 // constant value; for OExtract: lo ; for OSext: unused
	Hi    int    // OExtract hi
	Name  string // OVar / OUF
	epoch int
}

func (t *Term) IsConst() bool { return t.Op == OConst }
func (t *Term) IsBool() bool  { return t.W == 0 }

type tkey struct {
	op      Op
	w       int
	a, b, c int
	val     uint64
	hi      int
	name    string
}

// Store hash-conses terms. One store per path (not shared between goroutines).
type Store struct {
	tab   map[tkey]*Term
	stab  map[string]*Term
	next  int
	True  *Term
	False *Term
	Vars  []*Term
	bytes [256]*Term
	epoch int
}

// NewEpoch starts a new path: the variable list is reset, terms are kept.
func (s *Store) NewEpoch() {
	s.epoch++
	s.Vars = nil
}

func NewStore() *Store {
	s := &Store{tab: make(map[tkey]*Term, 1<<12), stab: map[string]*Term{}}
	s.True = s.mk(tkey{op: OConst, w: 0, val: 1}, nil)
	s.False = s.mk(tkey{op: OConst, w: 0, val: 0}, nil)
	return s
}

func (s *Store) mk(k tkey, args []*Term) *Term {
	if t, ok := s.tab[k]; ok {
		return t
	}
	s.next++
	t := &Term{ID: s.next, Op: k.op, W: k.w, Args: args, Val: k.val, Hi: k.hi, Name: k.name}
	s.tab[k] = t
	return t
}

func (s *Store) mkN(op Op, w int, name string, args []*Term) *Term {
	var sb strings.Builder
	fmt.Fprintf(&sb, "%d/%d/%s", op, w, name)
	for _, a := range args {
		fmt.Fprintf(&sb, "/%d", a.ID)
	}
	k := sb.String()
	if t, ok := s.stab[k]; ok {
		return t
	}
	s.next++
	t := &Term{ID: s.next, Op: op, W: w, Args: args, Name: name}
	s.stab[k] = t
	return t
}

func mask(w int) uint64 {
	if w >= 64 {
		return ^uint64(0)
	}
	return (uint64(1) << uint(w)) - 1
}

func (s *Store) Const(v uint64, w int) *Term {
	if w == 0 {
		if v != 0 {
			return s.True
		}
		return s.False
	}
	if w == 8 {
		v &= 0xff
		if t := s.bytes[v]; t != nil {
			return t
		}
		t := s.mk(tkey{op: OConst, w: 8, val: v}, nil)
		s.bytes[v] = t
		return t
	}
	return s.mk(tkey{op: OConst, w: w, val: v & mask(w)}, nil)
}

func (s *Store) Bool(b bool) *Term {
	if b {
		return s.True
	}
	return s.False
}

func (s *Store) Var(name string, w int) *Term {
	k := tkey{op: OVar, w: w, name: name}
	t, ok := s.tab[k]
	if !ok {
		t = s.mk(k, nil)
	}
	if t.epoch != s.epoch {
		t.epoch = s.epoch
		s.Vars = append(s.Vars, t)
	}
	return t
}

func (s *Store) UF(name string, w int, args ...*Term) *Term {
	return s.mkN(OUF, w, name, args)
}

func sx(v uint64, w int) int64 {
	if w >= 64 {
		return int64(v)
	}
	sh := uint(64 - w)
	return int64(v<<sh) >> sh
}

func (s *Store) bin(op Op, a, b *Term) *Term {
	return s.mk(tkey{op: op, w: a.W, a: a.ID, b: b.ID}, []*Term{a, b})
}

func (s *Store) cmp(op Op, a, b *Term) *Term {
	return s.mk(tkey{op: op, w: 0, a: a.ID, b: b.ID}, []*Term{a, b})
}

func isPow2(v uint64) (int, bool) {
	if v != 0 && v&(v-1) == 0 {
		return bits.TrailingZeros64(v), true
	}
	return 0, false
}

func (s *Store) checkW(a, b *Term, what string) {
	if a.W != b.W {
		panic(fmt.Sprintf("term width mismatch in %s: %d vs %d", what, a.W, b.W))
	}
}

func (s *Store) Add(a, b *Term) *Term {
	s.checkW(a, b, "add")
	if a.IsConst() && b.IsConst() {
		return s.Const(a.Val+b.Val, a.W)
	}
	if a.IsConst() {
		a, b = b, a
	}
	if b.IsConst() {
		if b.Val == 0 {
			return a
		}
		// (x + c1) + c2
		if a.Op == OAdd && a.Args[1].IsConst() {
			return s.Add(a.Args[0], s.Const(a.Args[1].Val+b.Val, a.W))
		}
	}
	return s.bin(OAdd, a, b)
}

func (s *Store) Sub(a, b *Term) *Term {
	s.checkW(a, b, "sub")
	if a.IsConst() && b.IsConst() {
		return s.Const(a.Val-b.Val, a.W)
	}
	if b.IsConst() {
		return s.Add(a, s.Const(-b.Val, a.W))
	}
	if a == b {
		return s.Const(0, a.W)
	}
	return s.bin(OSub, a, b)
}

func (s *Store) Mul(a, b *Term) *Term {
	s.checkW(a, b, "mul")
	if a.IsConst() && b.IsConst() {
		return s.Const(a.Val*b.Val, a.W)
	}
	if a.IsConst() {
		a, b = b, a
	}
	if b.IsConst() {
		if b.Val == 0 {
			return b
		}
		if b.Val == 1 {
			return a
		}
		if k, ok := isPow2(b.Val); ok {
			return s.Shl(a, s.Const(uint64(k), a.W))
		}
	}
	return s.bin(OMul, a, b)
}

func (s *Store) UDiv(a, b *Term) *Term {
	s.checkW(a, b, "udiv")
	if b.IsConst() && b.Val != 0 {
		if a.IsConst() {
			return s.Const(a.Val/b.Val, a.W)
		}
		if b.Val == 1 {
			return a
		}
		if k, ok := isPow2(b.Val); ok {
			return s.LShr(a, s.Const(uint64(k), a.W))
		}
	}
	return s.bin(OUDiv, a, b)
}

func (s *Store) URem(a, b *Term) *Term {
	s.checkW(a, b, "urem")
	if b.IsConst() && b.Val != 0 {
		if a.IsConst() {
			return s.Const(a.Val%b.Val, a.W)
		}
		if k, ok := isPow2(b.Val); ok {
			if k == 0 {
				return s.Const(0, a.W)
			}
			return s.Zext(s.Extract(a, k-1, 0), a.W)
		}
	}
	return s.bin(OURem, a, b)
}

func (s *Store) SDiv(a, b *Term) *Term {
	s.checkW(a, b, "sdiv")
	if b.IsConst() && b.Val != 0 {
		if a.IsConst() {
			x, y := sx(a.Val, a.W), sx(b.Val, b.W)
			if y == -1 {
				return s.Const(uint64(-x), a.W)
			}
			return s.Const(uint64(x/y), a.W)
		}
		if b.Val == 1 {
			return a
		}
	}
	return s.bin(OSDiv, a, b)
}

func (s *Store) SRem(a, b *Term) *Term {
	s.checkW(a, b, "srem")
	if b.IsConst() && b.Val != 0 {
		if a.IsConst() {
			x, y := sx(a.Val, a.W), sx(b.Val, b.W)
			if y == -1 {
				return s.Const(0, a.W)
			}
			return s.Const(uint64(x%y), a.W)
		}
	}
	return s.bin(OSRem, a, b)
}

// segs returns the segments of t from high to low.
func segs(t *Term) []*Term {
	if t.Op == OConcat {
		return t.Args
	}
	return []*Term{t}
}

// bitwise tries a segment-wise simplification of a bitwise op.
func (s *Store) bitwise(op Op, a, b *Term) *Term {
	sa, sb := segs(a), segs(b)
	if len(sa) == 1 && len(sb) == 1 && !a.IsConst() && !b.IsConst() {
		return nil
	}
	// collect boundaries (bit positions from low)
	bset := map[int]bool{}
	add := func(ss []*Term) {
		pos := 0
		for i := len(ss) - 1; i >= 0; i-- {
			pos += ss[i].W
			bset[pos] = true
		}
	}
	add(sa)
	add(sb)
	var bnd []int
	for p := range bset {
		bnd = append(bnd, p)
	}
	sort.Ints(bnd)
	if len(bnd) > 16 {
		return nil
	}
	// produce segments low to high
	var out []*Term
	lo := 0
	for _, hi := range bnd {
		x := s.Extract(a, hi-1, lo)
		y := s.Extract(b, hi-1, lo)
		var r *Term
		w := hi - lo
		switch {
		case x.IsConst() && y.IsConst():
			switch op {
			case OAnd:
				r = s.Const(x.Val&y.Val, w)
			case OOr:
				r = s.Const(x.Val|y.Val, w)
			case OXor:
				r = s.Const(x.Val^y.Val, w)
			}
		case x.IsConst() || y.IsConst():
			c, v := x, y
			if y.IsConst() {
				c, v = y, x
			}
			switch op {
			case OAnd:
				if c.Val == 0 {
					r = c
				} else if c.Val == mask(w) {
					r = v
				}
			case OOr:
				if c.Val == 0 {
					r = v
				} else if c.Val == mask(w) {
					r = c
				}
			case OXor:
				if c.Val == 0 {
					r = v
				}
			}
		case x == y:
			switch op {
			case OAnd, OOr:
				r = x
			case OXor:
				r = s.Const(0, w)
			}
		}
		if r == nil {
			return nil
		}
		out = append(out, r)
		lo = hi
	}
	// reverse to high..low
	for i, j := 0, len(out)-1; i < j; i, j = i+1, j-1 {
		out[i], out[j] = out[j], out[i]
	}
	return s.Concat(out...)
}

func (s *Store) And(a, b *Term) *Term {
	s.checkW(a, b, "and")
	if a == b {
		return a
	}
	if a.IsConst() && b.IsConst() {
		return s.Const(a.Val&b.Val, a.W)
	}
	if r := s.bitwise(OAnd, a, b); r != nil {
		return r
	}
	if a.IsConst() {
		a, b = b, a
	}
	return s.bin(OAnd, a, b)
}

func (s *Store) Or(a, b *Term) *Term {
	s.checkW(a, b, "or")
	if a == b {
		return a
	}
	if a.IsConst() && b.IsConst() {
		return s.Const(a.Val|b.Val, a.W)
	}
	if r := s.bitwise(OOr, a, b); r != nil {
		return r
	}
	if a.IsConst() {
		a, b = b, a
	}
	return s.bin(OOr, a, b)
}

func (s *Store) Xor(a, b *Term) *Term {
	s.checkW(a, b, "xor")
	if a == b {
		return s.Const(0, a.W)
	}
	if a.IsConst() && b.IsConst() {
		return s.Const(a.Val^b.Val, a.W)
	}
	if r := s.bitwise(OXor, a, b); r != nil {
		return r
	}
	if a.IsConst() {
		a, b = b, a
	}
	if b.IsConst() && b.Val == mask(a.W) {
		return s.Not(a)
	}
	return s.bin(OXor, a, b)
}

func (s *Store) Not(a *Term) *Term {
	if a.IsConst() {
		return s.Const(^a.Val, a.W)
	}
	if a.Op == ONot {
		return a.Args[0]
	}
	return s.mk(tkey{op: ONot, w: a.W, a: a.ID}, []*Term{a})
}

func (s *Store) Neg(a *Term) *Term { return s.Sub(s.Const(0, a.W), a) }

// Shl: b has the same width as a (callers normalise).
func (s *Store) Shl(a, b *Term) *Term {
	s.checkW(a, b, "shl")
	if b.IsConst() {
		k := b.Val
		if k == 0 {
			return a
		}
		if k >= uint64(a.W) {
			return s.Const(0, a.W)
		}
		if a.IsConst() {
			return s.Const(a.Val<<k, a.W)
		}
		return s.Concat(s.Extract(a, a.W-1-int(k), 0), s.Const(0, int(k)))
	}
	return s.bin(OShl, a, b)
}

func (s *Store) LShr(a, b *Term) *Term {
	s.checkW(a, b, "lshr")
	if b.IsConst() {
		k := b.Val
		if k == 0 {
			return a
		}
		if k >= uint64(a.W) {
			return s.Const(0, a.W)
		}
		if a.IsConst() {
			return s.Const(a.Val>>k, a.W)
		}
		return s.Concat(s.Const(0, int(k)), s.Extract(a, a.W-1, int(k)))
	}
	return s.bin(OLShr, a, b)
}

func (s *Store) AShr(a, b *Term) *Term {
	s.checkW(a, b, "ashr")
	if b.IsConst() {
		k := b.Val
		if k == 0 {
			return a
		}
		if k >= uint64(a.W) {
			k = uint64(a.W - 1)
		}
		if a.IsConst() {
			return s.Const(uint64(sx(a.Val, a.W)>>k), a.W)
		}
		return s.Sext(s.Extract(a, a.W-1, int(k)), a.W)
	}
	return s.bin(OAShr, a, b)
}

func (s *Store) Extract(a *Term, hi, lo int) *Term {
	if hi < lo || lo < 0 || hi >= a.W {
		panic(fmt.Sprintf("bad extract [%d:%d] of width %d", hi, lo, a.W))
	}
	w := hi - lo + 1
	if w == a.W {
		return a
	}
	switch a.Op {
	case OConst:
		return s.Const(a.Val>>uint(lo), w)
	case OExtract:
		return s.Extract(a.Args[0], int(a.Val)+hi, int(a.Val)+lo)
	case OConcat:
		// find segments covered
		pos := 0
		var parts []*Term // low to high
		for i := len(a.Args) - 1; i >= 0; i-- {
			sg := a.Args[i]
			slo, shi := pos, pos+sg.W-1
			pos += sg.W
			if shi < lo || slo > hi {
				continue
			}
			l, h := lo, hi
			if l < slo {
				l = slo
			}
			if h > shi {
				h = shi
			}
			parts = append(parts, s.Extract(sg, h-slo, l-slo))
		}
		for i, j := 0, len(parts)-1; i < j; i, j = i+1, j-1 {
			parts[i], parts[j] = parts[j], parts[i]
		}
		return s.Concat(parts...)
	case OSext:
		x := a.Args[0]
		if hi < x.W {
			return s.Extract(x, hi, lo)
		}
	case OAnd, OOr, OXor:
		if a.Args[1].IsConst() {
			x := s.Extract(a.Args[0], hi, lo)
			c := s.Extract(a.Args[1], hi, lo)
			switch a.Op {
			case OAnd:
				return s.And(x, c)
			case OOr:
				return s.Or(x, c)
			default:
				return s.Xor(x, c)
			}
		}
	case OIte:
		if a.Args[1].IsConst() && a.Args[2].IsConst() {
			return s.Ite(a.Args[0], s.Extract(a.Args[1], hi, lo), s.Extract(a.Args[2], hi, lo))
		}
	}
	return s.mk(tkey{op: OExtract, w: w, a: a.ID, val: uint64(lo), hi: hi}, []*Term{a})
}

// Concat builds a concatenation; parts are given from high to low.
func (s *Store) Concat(parts ...*Term) *Term {
	var flat []*Term
	for _, p := range parts {
		if p.W == 0 {
			panic("concat of bool")
		}
		if p.Op == OConcat {
			flat = append(flat, p.Args...)
		} else {
			flat = append(flat, p)
		}
	}
	// merge neighbours
	var out []*Term
	for _, p := range flat {
		if n := len(out); n > 0 {
			q := out[n-1] // q is higher than p
			if q.IsConst() && p.IsConst() && q.W+p.W <= 64 {
				out[n-1] = s.Const(q.Val<<uint(p.W)|p.Val, q.W+p.W)
				continue
			}
			if q.Op == OExtract && p.Op == OExtract && q.Args[0] == p.Args[0] && int(q.Val) == p.Hi+1 {
				out[n-1] = s.Extract(p.Args[0], q.Hi, int(p.Val))
				continue
			}
			// extract(x,k,0) preceded by... handled above; whole-var low part
			if q.Op == OExtract && q.Args[0] == p && int(q.Val) == p.W {
				// cannot happen: p is the full var with W==p.W, extract lo>=W invalid
			}
		}
		out = append(out, p)
	}
	if len(out) == 1 {
		return out[0]
	}
	w := 0
	for _, p := range out {
		w += p.W
	}
	if w > 64 {
		panic(fmt.Sprintf("concat wider than 64 bits (%d)", w))
	}
	return s.mkN(OConcat, w, "", out)
}

func (s *Store) Zext(a *Term, w int) *Term {
	if a.W == w {
		return a
	}
	if a.W > w {
		panic("zext to narrower")
	}
	if a.IsConst() {
		return s.Const(a.Val, w)
	}
	return s.Concat(s.Const(0, w-a.W), a)
}

func (s *Store) Sext(a *Term, w int) *Term {
	if a.W == w {
		return a
	}
	if a.W > w {
		panic("sext to narrower")
	}
	if a.IsConst() {
		return s.Const(uint64(sx(a.Val, a.W)), w)
	}
	if a.Op == OSext {
		return s.Sext(a.Args[0], w)
	}
	if a.Op == OConcat && a.Args[0].IsConst() && a.Args[0].Val>>(uint(a.Args[0].W)-1) == 0 {
		// top bit known zero
		return s.Zext(a, w)
	}
	return s.mk(tkey{op: OSext, w: w, a: a.ID}, []*Term{a})
}

// Trunc or extend to width w.
func (s *Store) Resize(a *Term, w int, signed bool) *Term {
	switch {
	case a.W == w:
		return a
	case a.W > w:
		return s.Extract(a, w-1, 0)
	case signed:
		return s.Sext(a, w)
	default:
		return s.Zext(a, w)
	}
}

func (s *Store) Eq(a, b *Term) *Term {
	s.checkW(a, b, "eq")
	if a == b {
		return s.True
	}
	if a.IsConst() && b.IsConst() {
		return s.Bool(a.Val == b.Val)
	}
	if a.W == 0 {
		// boolean equality
		if a.IsConst() {
			a, b = b, a
		}
		if b.IsConst() {
			if b.Val == 1 {
				return a
			}
			return s.BNot(a)
		}
		if a.ID > b.ID {
			a, b = b, a
		}
		return s.cmp(OEq, a, b)
	}
	if a.IsConst() {
		a, b = b, a
	}
	if b.IsConst() {
		switch a.Op {
		case OIte:
			x, y := a.Args[1], a.Args[2]
			if x.IsConst() && y.IsConst() {
				ex, ey := x.Val == b.Val, y.Val == b.Val
				switch {
				case ex && ey:
					return s.True
				case ex:
					return a.Args[0]
				case ey:
					return s.BNot(a.Args[0])
				default:
					return s.False
				}
			}
		case OConcat:
			// split into per-segment equalities
			r := s.True
			pos := 0
			for i := len(a.Args) - 1; i >= 0; i-- {
				sg := a.Args[i]
				c := s.Const(b.Val>>uint(pos), sg.W)
				r = s.BAnd(r, s.Eq(sg, c))
				pos += sg.W
			}
			return r
		case OAdd:
			if a.Args[1].IsConst() {
				return s.Eq(a.Args[0], s.Const(b.Val-a.Args[1].Val, a.W))
			}
		}
	}
	if a.Op == OConcat && b.Op == OConcat && len(a.Args) == len(b.Args) {
		same := true
		for i := range a.Args {
			if a.Args[i].W != b.Args[i].W {
				same = false
			}
		}
		if same {
			r := s.True
			for i := range a.Args {
				r = s.BAnd(r, s.Eq(a.Args[i], b.Args[i]))
			}
			return r
		}
	}
	if !b.IsConst() && a.ID > b.ID {
		a, b = b, a
	}
	return s.cmp(OEq, a, b)
}

func (s *Store) Ne(a, b *Term) *Term { return s.BNot(s.Eq(a, b)) }

func (s *Store) Ult(a, b *Term) *Term {
	s.checkW(a, b, "ult")
	if a == b {
		return s.False
	}
	if a.IsConst() && b.IsConst() {
		return s.Bool(a.Val < b.Val)
	}
	if b.IsConst() && b.Val == 0 {
		return s.False
	}
	if a.IsConst() && a.Val == mask(a.W) {
		return s.False
	}
	if b.IsConst() {
		// zero-extended value compared with a constant beyond its range
		if a.Op == OConcat && a.Args[0].IsConst() && a.Args[0].Val == 0 {
			lw := a.W - a.Args[0].W
			if lw < 64 && b.Val > mask(lw) {
				return s.True
			}
		}
	}
	return s.cmp(OUlt, a, b)
}

func (s *Store) Ule(a, b *Term) *Term {
	s.checkW(a, b, "ule")
	if a == b {
		return s.True
	}
	if a.IsConst() && b.IsConst() {
		return s.Bool(a.Val <= b.Val)
	}
	return s.BNot(s.Ult(b, a))
}

func (s *Store) Slt(a, b *Term) *Term {
	s.checkW(a, b, "slt")
	if a == b {
		return s.False
	}
	if a.IsConst() && b.IsConst() {
		return s.Bool(sx(a.Val, a.W) < sx(b.Val, b.W))
	}
	// both known non-negative -> unsigned compare
	if nonNeg(a) && nonNeg(b) {
		return s.Ult(a, b)
	}
	return s.cmp(OSlt, a, b)
}

func nonNeg(t *Term) bool {
	if t.IsConst() {
		return t.Val>>(uint(t.W)-1) == 0
	}
	if t.Op == OConcat && t.Args[0].IsConst() {
		c := t.Args[0]
		return c.Val>>(uint(c.W)-1) == 0
	}
	return false
}

func (s *Store) Sle(a, b *Term) *Term {
	s.checkW(a, b, "sle")
	if a == b {
		return s.True
	}
	return s.BNot(s.Slt(b, a))
}

func (s *Store) Ite(c, a, b *Term) *Term {
	if c.W != 0 {
		panic("ite cond not bool")
	}
	s.checkW(a, b, "ite")
	if c.IsConst() {
		if c.Val != 0 {
			return a
		}
		return b
	}
	if a == b {
		return a
	}
	if a.W == 0 {
		// boolean ite
		if a.IsConst() && b.IsConst() {
			if a.Val == 1 {
				return c
			}
			return s.BNot(c)
		}
		return s.BOr(s.BAnd(c, a), s.BAnd(s.BNot(c), b))
	}
	return s.mk(tkey{op: OIte, w: a.W, a: c.ID, b: a.ID, c: b.ID}, []*Term{c, a, b})
}

func (s *Store) BNot(a *Term) *Term {
	if a.W != 0 {
		panic("bnot of non-bool")
	}
	if a.IsConst() {
		return s.Bool(a.Val == 0)
	}
	if a.Op == OBNot {
		return a.Args[0]
	}
	return s.mk(tkey{op: OBNot, w: 0, a: a.ID}, []*Term{a})
}

func (s *Store) BAnd(a, b *Term) *Term {
	if a.W != 0 || b.W != 0 {
		panic("band of non-bool")
	}
	if a.IsConst() {
		if a.Val == 0 {
			return a
		}
		return b
	}
	if b.IsConst() {
		if b.Val == 0 {
			return b
		}
		return a
	}
	if a == b {
		return a
	}
	if a.ID > b.ID {
		a, b = b, a
	}
	return s.cmp(OBAnd, a, b)
}

func (s *Store) BOr(a, b *Term) *Term {
	if a.W != 0 || b.W != 0 {
		panic("bor of non-bool")
	}
	if a.IsConst() {
		if a.Val == 1 {
			return a
		}
		return b
	}
	if b.IsConst() {
		if b.Val == 1 {
			return b
		}
		return a
	}
	if a == b {
		return a
	}
	if a.ID > b.ID {
		a, b = b, a
	}
	return s.cmp(OBOr, a, b)
}

// BoolToBV converts a boolean to a w-bit 0/1.
func (s *Store) BoolToBV(b *Term, w int) *Term {
	return s.Ite(b, s.Const(1, w), s.Const(0, w))
}

// Eval evaluates t under a model (variable name -> value). UFs are looked up
// in ufm by printed application key; missing entries evaluate to 0.
func Eval(t *Term, model map[string]uint64, memo map[*Term]uint64) uint64 {
	if v, ok := memo[t]; ok {
		return v
	}
	var r uint64
	a := func(i int) uint64 { return Eval(t.Args[i], model, memo) }
	b2u := func(b bool) uint64 {
		if b {
			return 1
		}
		return 0
	}
	switch t.Op {
	case OConst:
		r = t.Val
	case OVar:
		r = model[t.Name] & maskB(t.W)
	case OUF:
		key := t.Name
		for i := range t.Args {
			key += fmt.Sprintf(",%d", a(i))
		}
		r = model["uf:"+key] & maskB(t.W)
	case OAdd:
		r = a(0) + a(1)
	case OSub:
		r = a(0) - a(1)
	case OMul:
		r = a(0) * a(1)
	case OUDiv:
		if y := a(1); y == 0 {
			r = mask(t.W)
		} else {
			r = a(0) / y
		}
	case OURem:
		if y := a(1); y == 0 {
			r = a(0)
		} else {
			r = a(0) % y
		}
	case OSDiv:
		x, y := sx(a(0), t.W), sx(a(1), t.W)
		switch {
		case y == 0:
			if x < 0 {
				r = 1
			} else {
				r = mask(t.W)
			}
		case y == -1:
			r = uint64(-x)
		default:
			r = uint64(x / y)
		}
	case OSRem:
		x, y := sx(a(0), t.W), sx(a(1), t.W)
		switch {
		case y == 0:
			r = uint64(x)
		case y == -1:
			r = 0
		default:
			r = uint64(x % y)
		}
	case OAnd:
		r = a(0) & a(1)
	case OOr:
		r = a(0) | a(1)
	case OXor:
		r = a(0) ^ a(1)
	case ONot:
		r = ^a(0)
	case OShl:
		if k := a(1); k >= uint64(t.W) {
			r = 0
		} else {
			r = a(0) << k
		}
	case OLShr:
		if k := a(1); k >= uint64(t.W) {
			r = 0
		} else {
			r = a(0) >> k
		}
	case OAShr:
		k := a(1)
		if k >= uint64(t.W) {
			k = uint64(t.W - 1)
		}
		r = uint64(sx(a(0), t.W) >> k)
	case OEq:
		r = b2u(a(0) == a(1))
	case OUlt:
		r = b2u(a(0) < a(1))
	case OUle:
		r = b2u(a(0) <= a(1))
	case OSlt:
		r = b2u(sx(a(0), t.Args[0].W) < sx(a(1), t.Args[0].W))
	case OSle:
		r = b2u(sx(a(0), t.Args[0].W) <= sx(a(1), t.Args[0].W))
	case OSext:
		r = uint64(sx(a(0), t.Args[0].W))
	case OExtract:
		r = a(0) >> t.Val
	case OConcat:
		for i := range t.Args {
			r = r<<uint(t.Args[i].W) | a(i)
		}
	case OIte:
		if a(0) != 0 {
			r = a(1)
		} else {
			r = a(2)
		}
	case OBAnd:
		r = a(0) & a(1)
	case OBOr:
		r = a(0) | a(1)
	case OBNot:
		r = 1 - a(0)
	default:
		panic("eval: bad op")
	}
	r &= maskB(t.W)
	memo[t] = r
	return r
}

func maskB(w int) uint64 {
	if w == 0 {
		return 1
	}
	return mask(w)
}

// String renders a term for debugging (not SMT syntax for defs).
func (t *Term) String() string {
	switch t.Op {
	case OConst:
		if t.W == 0 {
			if t.Val != 0 {
				return "true"
			}
			return "false"
		}
		return fmt.Sprintf("%d:%d", t.Val, t.W)
	case OVar:
		return t.Name
	case OExtract:
		return fmt.Sprintf("%s[%d:%d]", t.Args[0], t.Hi, t.Val)
	case OSext:
		return fmt.Sprintf("sext%d(%s)", t.W, t.Args[0])
	case OUF:
		var a []string
		for _, x := range t.Args {
			a = append(a, x.String())
		}
		return t.Name + "(" + strings.Join(a, ",") + ")"
	}
	var a []string
	for _, x := range t.Args {
		a = append(a, x.String())
	}
	return "(" + opNames[t.Op] + " " + strings.Join(a, " ") + ")"
}

// CollectVars returns the variables occurring in t.
func CollectVars(t *Term, seen map[*Term]bool, out *[]*Term) {
	if seen[t] {
		return
	}
	seen[t] = true
	if t.Op == OVar {
		*out = append(*out, t)
	}
	for _, a := range t.Args {
		CollectVars(a, seen, out)
	}
}
