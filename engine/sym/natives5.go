package sym

import (
	"fmt"
	"go/types"
)

// Native model of package context on top of the cooperative scheduler. Every
// derived context is a *context.cancelCtx cell whose state lives in the engine.
// A parent that is not one of ours (a harness context type) is consulted through
// its real interface methods.

type ctxState struct {
	cell     *Cell
	parent   IfaceV
	pstate   *ctxState // parent when native
	done     *ChanV
	err      IfaceV
	cause    IfaceV
	hasDL    bool
	deadline Value // time.Time
	dlMs     int64 // the deadline on the virtual clock (unix ms); -1 when not concrete
	key, val Value
	otelSpan Value // trace.SpanContext put there by trace.ContextWithSpanContext
	kt       types.Type
	children []*ctxState
}

func (in *Interp) ctxOf(v Value) *ctxState {
	p, ok := v.(PtrV)
	if !ok || p.C == nil {
		return nil
	}
	s, _ := in.ext[fmt.Sprintf("ctx:%d", p.C.ID)].(*ctxState)
	return s
}

func (in *Interp) ctxType() types.Type {
	return types.NewPointer(in.world.namedType("context", "cancelCtx"))
}

func (in *Interp) newCtx(parent IfaceV) (*ctxState, IfaceV) {
	c := in.newFlatCell(types.Typ[types.Uint8], 1)
	in.nextID++
	s := &ctxState{cell: c, parent: parent, done: &ChanV{id: in.nextID, et: types.NewStruct(nil, nil)}}
	in.ext[fmt.Sprintf("ctx:%d", c.ID)] = s
	if parent.T != nil {
		if ps := in.ctxOf(parent.V); ps != nil && types.Identical(parent.T, in.ctxType()) {
			s.pstate = ps
			ps.children = append(ps.children, s)
			if ps.err.T != nil {
				in.ctxCancel(s, ps.err, ps.cause)
			}
		} else {
			list, _ := in.ext["ctx:foreign"].([]*ctxState)
			in.ext["ctx:foreign"] = append(list, s)
		}
	}
	return s, IfaceV{T: in.ctxType(), V: PtrV{C: c}}
}

func (in *Interp) ctxCancel(s *ctxState, err, cause IfaceV) {
	if s.err.T != nil {
		return
	}
	s.err = err
	s.cause = cause
	if in.race != nil {
		// cancellation happens before whatever observes it (Err, a receive from Done)
		in.raceRelease(s)
		s.done.closeVC = vcJoin(vcCopy(s.done.closeVC), in.race.sync[s])
	}
	if !s.done.closed {
		s.done.closed = true
	}
	for _, ch := range s.children {
		in.ctxCancel(ch, err, cause)
	}
}

// ctxSetDeadline gives s the deadline d unless the parent's is earlier (context.WithDeadline then
// only derives a cancel context), and registers it with the virtual clock: once the clock has
// reached a concrete deadline the context is done with DeadlineExceeded.
func (in *Interp) ctxSetDeadline(fr *frame, s *ctxState, parent IfaceV, d Value) {
	timeT := in.world.namedType("time", "Time")
	if parent.T != nil {
		if m := in.findMethod(parent.T, "Deadline"); m != nil {
			r := in.callFn(fr, m, []Value{parent.V}, nil).(TupleV)
			if ok, isT := r[1].(*Term); isT && ok == in.st.True {
				before := in.callFn(fr, in.findMethod(timeT, "Before"), []Value{r[0], d}, nil).(*Term)
				if in.branch(before) {
					return
				}
			}
		}
	}
	s.hasDL, s.deadline, s.dlMs = true, d, -1
	if ms, ok := in.callFn(fr, in.findMethod(timeT, "UnixMilli"), []Value{d}, nil).(*Term); ok && ms.IsConst() {
		s.dlMs = sx(ms.Val, ms.W)
		list, _ := in.ext["ctx:deadlines"].([]*ctxState)
		in.ext["ctx:deadlines"] = append(list, s)
	}
}

func (in *Interp) clockNowMs() int64 {
	k, _ := in.ext["now"].(int64)
	off, _ := in.ext["clockOffsetMs"].(int64)
	return int64(1704067200000) + k + off
}

// ctxFireNextDeadline: nobody can run; if a live deadline context exists, the virtual clock jumps to
// the earliest such deadline and the context expires (its Done channel closes). Reports whether
// anything fired.
func (in *Interp) ctxFireNextDeadline() bool {
	list, _ := in.ext["ctx:deadlines"].([]*ctxState)
	var next *ctxState
	for _, s := range list {
		if s.err.T == nil && s.dlMs >= 0 && (next == nil || s.dlMs < next.dlMs) {
			next = s
		}
	}
	if next == nil {
		return false
	}
	now := in.clockNowMs()
	if next.dlMs > now {
		off, _ := in.ext["clockOffsetMs"].(int64)
		in.ext["clockOffsetMs"] = off + (next.dlMs - now)
	}
	in.ctxExpire()
	return next.err.T != nil
}

// ctxExpire ends every deadline context whose deadline the virtual clock has reached.
func (in *Interp) ctxExpire() {
	list, _ := in.ext["ctx:deadlines"].([]*ctxState)
	if len(list) == 0 {
		return
	}
	now := in.clockNowMs()
	for _, s := range list {
		if s.err.T == nil && s.dlMs >= 0 && now >= s.dlMs {
			e := in.deadlineExceededErr()
			in.ctxCancel(s, e, e)
		}
	}
}

// ctxPollForeign lets every context derived from a harness context observe its parent.
func (in *Interp) ctxPollForeign(fr *frame) {
	list, _ := in.ext["ctx:foreign"].([]*ctxState)
	for _, s := range list {
		if s.err.T != nil {
			continue
		}
		m := in.findMethod(s.parent.T, "Err")
		if m == nil {
			continue
		}
		e := in.callFn(fr, m, []Value{s.parent.V}, nil).(IfaceV)
		if e.T != nil {
			in.ctxCancel(s, e, e)
		}
	}
}

func (in *Interp) ctxErr(fr *frame, s *ctxState) IfaceV {
	in.ctxExpire()
	if s.err.T != nil {
		in.raceAcquire(s)
		return s.err
	}
	if s.pstate != nil {
		if e := in.ctxErr(fr, s.pstate); e.T != nil {
			return s.err
		}
		return IfaceV{}
	}
	if s.parent.T != nil {
		if m := in.findMethod(s.parent.T, "Err"); m != nil {
			e := in.callFn(fr, m, []Value{s.parent.V}, nil).(IfaceV)
			if e.T != nil {
				in.ctxCancel(s, e, e)
			}
		}
	}
	return s.err
}

func (in *Interp) canceledErr() IfaceV {
	g := in.prog.ImportedPackage("context").Var("Canceled")
	return in.load(PtrV{C: in.global(g)}, errorType).(IfaceV)
}

func (in *Interp) deadlineExceededErr() IfaceV {
	t := in.world.namedType("context", "deadlineExceededError")
	return IfaceV{T: t, V: StructV{}}
}

func init() {
	n := nativeTable
	cancelFunc := func(s *ctxState, withCause bool) *FuncV {
		return &FuncV{Name: "cancel", Native: func(in *Interp, fr *frame, a []Value) Value {
			cause := in.canceledErr()
			if withCause && len(a) > 0 {
				if c := a[0].(IfaceV); c.T != nil {
					cause = c
				}
			}
			in.ctxCancel(s, in.canceledErr(), cause)
			return nil
		}}
	}
	n["context.WithCancel"] = func(in *Interp, fr *frame, a []Value) Value {
		s, v := in.newCtx(a[0].(IfaceV))
		return TupleV{v, cancelFunc(s, false)}
	}
	n["context.WithCancelCause"] = func(in *Interp, fr *frame, a []Value) Value {
		s, v := in.newCtx(a[0].(IfaceV))
		return TupleV{v, cancelFunc(s, true)}
	}
	n["context.WithDeadline"] = func(in *Interp, fr *frame, a []Value) Value {
		s, v := in.newCtx(a[0].(IfaceV))
		in.ctxSetDeadline(fr, s, a[0].(IfaceV), a[1])
		return TupleV{v, cancelFunc(s, false)}
	}
	n["context.WithTimeout"] = func(in *Interp, fr *frame, a []Value) Value {
		s, v := in.newCtx(a[0].(IfaceV))
		now := in.callFn(fr, in.prog.ImportedPackage("time").Func("Now"), nil, nil)
		add := in.findMethod(in.world.namedType("time", "Time"), "Add")
		in.ctxSetDeadline(fr, s, a[0].(IfaceV), in.callFn(fr, add, []Value{now, a[1]}, nil))
		return TupleV{v, cancelFunc(s, false)}
	}
	// OpenTelemetry's span-in-context plumbing (the rest of otel is stubbed): a span context stored
	// in a context is found again by SpanContextFromContext through native child contexts
	withSpan := func(in *Interp, fr *frame, a []Value) Value {
		s, v := in.newCtx(a[0].(IfaceV))
		s.otelSpan = a[1]
		return v
	}
	n["go.opentelemetry.io/otel/trace.ContextWithSpanContext"] = withSpan
	n["go.opentelemetry.io/otel/trace.ContextWithRemoteSpanContext"] = withSpan
	n["go.opentelemetry.io/otel/trace.SpanContextFromContext"] = func(in *Interp, fr *frame, a []Value) Value {
		if c, ok := a[0].(IfaceV); ok && c.T != nil {
			for s := in.ctxOf(c.V); s != nil; s = s.pstate {
				if s.otelSpan != nil {
					return s.otelSpan
				}
			}
		}
		return in.zero(in.world.namedType("go.opentelemetry.io/otel/trace", "SpanContext"))
	}
	n["context.WithValue"] = func(in *Interp, fr *frame, a []Value) Value {
		s, v := in.newCtx(a[0].(IfaceV))
		s.key, s.val = a[1], a[2]
		return v
	}
	n["context.Cause"] = func(in *Interp, fr *frame, a []Value) Value {
		if s := in.ctxOf(a[0].(IfaceV).V); s != nil {
			in.ctxErr(fr, s)
			return s.cause
		}
		return IfaceV{}
	}
	n["(*context.cancelCtx).Done"] = func(in *Interp, fr *frame, a []Value) Value {
		s := in.ctxOf(a[0])
		in.ctxErr(fr, s)
		return s.done
	}
	n["(*context.cancelCtx).Err"] = func(in *Interp, fr *frame, a []Value) Value {
		return in.ctxErr(fr, in.ctxOf(a[0]))
	}
	n["(*context.cancelCtx).Deadline"] = func(in *Interp, fr *frame, a []Value) Value {
		for s := in.ctxOf(a[0]); s != nil; s = s.pstate {
			if s.hasDL {
				return TupleV{s.deadline, in.st.True}
			}
			if s.pstate == nil && s.parent.T != nil {
				if m := in.findMethod(s.parent.T, "Deadline"); m != nil {
					return in.callFn(fr, m, []Value{s.parent.V}, nil)
				}
			}
		}
		return TupleV{in.zero(in.world.namedType("time", "Time")), in.st.False}
	}
	n["(*context.cancelCtx).Value"] = func(in *Interp, fr *frame, a []Value) Value {
		key := a[1].(IfaceV)
		for s := in.ctxOf(a[0]); s != nil; s = s.pstate {
			if k, ok := s.key.(IfaceV); ok && k.T != nil && key.T != nil && types.Identical(k.T, key.T) {
				if in.branch(in.equal(k.T, k.V, key.V)) {
					return s.val
				}
			}
			if s.pstate == nil && s.parent.T != nil {
				if m := in.findMethod(s.parent.T, "Value"); m != nil {
					return in.callFn(fr, m, []Value{s.parent.V, key}, nil)
				}
			}
		}
		return IfaceV{}
	}
	n["(*context.cancelCtx).String"] = func(in *Interp, fr *frame, a []Value) Value { return in.strConst("context") }

	// joined errors: std errors.Join, go-faster errors.Join, multierr.Append/Combine
	join := func(in *Interp, errs []IfaceV) Value {
		var nn []IfaceV
		for _, e := range errs {
			if e.T != nil {
				nn = append(nn, e)
			}
		}
		if len(nn) == 0 {
			return IfaceV{}
		}
		jt := in.world.namedType("errors", "joinError")
		c := in.newCell(jt)
		arr := in.newArrayCell(errorType, len(nn))
		for i, e := range nn {
			in.store(PtrV{C: arr.Kids[i]}, errorType, e)
		}
		in.store(PtrV{C: c.Kids[0]}, types.NewSlice(errorType), SliceV{C: arr, Len: len(nn), Cap: len(nn)})
		return IfaceV{T: types.NewPointer(jt), V: PtrV{C: c}}
	}
	joinVariadic := func(in *Interp, fr *frame, a []Value) Value {
		s := a[0].(SliceV)
		var errs []IfaceV
		for i := 0; i < s.Len; i++ {
			errs = append(errs, in.load(PtrV{C: s.C.Kids[s.Off+i]}, errorType).(IfaceV))
		}
		return join(in, errs)
	}
	n["errors.Join"] = joinVariadic
	n[gfErrors+".Join"] = joinVariadic
	n["go.uber.org/multierr.Combine"] = joinVariadic
	n["go.uber.org/multierr.Append"] = func(in *Interp, fr *frame, a []Value) Value {
		l, r := a[0].(IfaceV), a[1].(IfaceV)
		if l.T == nil {
			return r
		}
		if r.T == nil {
			return l
		}
		return join(in, []IfaceV{l, r})
	}
	n["(*errors.joinError).Error"] = func(in *Interp, fr *frame, a []Value) Value {
		p := a[0].(PtrV)
		s := in.load(PtrV{C: p.C.Kids[0]}, types.NewSlice(errorType)).(SliceV)
		var out []*Term
		for i := 0; i < s.Len; i++ {
			if i > 0 {
				out = append(out, in.st.Const('\n', 8))
			}
			out = append(out, in.errorText(in.load(PtrV{C: s.C.Kids[s.Off+i]}, errorType).(IfaceV)).B...)
		}
		return StrV{B: out}
	}

	// time.Now: a concrete, strictly increasing instant unless the harness asks for symbolic time
	n["time.Now"] = func(in *Interp, fr *frame, a []Value) Value {
		k, _ := in.ext["now"].(int64)
		in.ext["now"] = k + 1
		off, _ := in.ext["clockOffsetMs"].(int64)
		k += off
		local := in.prog.ImportedPackage("time").Var("Local")
		loc := in.load(PtrV{C: in.global(local)}, types.NewPointer(in.world.namedType("time", "Location")))
		// 2024-01-01T00:00:00Z + k milliseconds; ext holds seconds since year 1
		sec := int64(1704067200+62135596800) + k/1000
		nsec := (k % 1000) * 1000000
		return StructV{in.st.Const(uint64(nsec), 64), in.st.Const(uint64(sec), 64), loc}
	}
	n["github.com/google/uuid.New"] = func(in *Interp, fr *frame, a []Value) Value {
		out := make(ArrayV, 16)
		for i := range out {
			out[i] = in.st.Const(uint64(0x10+i), 8)
		}
		return out
	}
	n["github.com/ClickHouse/ch-go/internal/version.Get"] = func(in *Interp, fr *frame, a []Value) Value {
		st := in.st
		return StructV{st.Const(0, 64), st.Const(0, 64), st.Const(0, 64), in.strConst("dev"), in.strConst("0.0.1-dev")}
	}

	// the no-op tracer: the context as it is and a span whose methods do nothing
	n["(go.opentelemetry.io/otel/trace/noop.Tracer).Start"] = func(in *Interp, fr *frame, a []Value) Value {
		t := in.world.namedType("go.opentelemetry.io/otel/trace/noop", "Span")
		return TupleV{a[1], IfaceV{T: t, V: in.zero(t)}}
	}
	n["time.initLocal"] = func(in *Interp, fr *frame, a []Value) Value { return nil }
	// verifClockAdvanceTo(unixMilli): the harness' virtual clock jumps forward (a blocked read
	// returns when its deadline is reached)
	intrinsics["verifClockAdvanceTo"] = func(in *Interp, fr *frame, a []Value) Value {
		t := in.mustConst(a[0].(*Term), "clock target")
		k, _ := in.ext["now"].(int64)
		off, _ := in.ext["clockOffsetMs"].(int64)
		now := int64(1704067200000) + k + off
		if t > now {
			in.ext["clockOffsetMs"] = off + (t - now)
		}
		in.ctxExpire()
		return nil
	}
	intrinsics["verifSettle"] = func(in *Interp, fr *frame, a []Value) Value {
		for i := 0; i < 64 && in.pickNext(in.co.current) != nil; i++ {
			in.yieldUntil(nil)
		}
		return nil
	}
	intrinsics["verifPollContexts"] = func(in *Interp, fr *frame, a []Value) Value { in.ctxPollForeign(fr); return nil }
	// verifWait yields to the other goroutines; false when none of them can run
	intrinsics["verifAllocMark"] = func(in *Interp, fr *frame, a []Value) Value { return nil }
	intrinsics["verifAllocCheck"] = func(in *Interp, fr *frame, a []Value) Value { return nil }
	intrinsics["verifAwaitClose"] = func(in *Interp, fr *frame, a []Value) Value {
		ch := a[0].(*ChanV)
		dl := in.mustConst(a[1].(*Term), "await deadline")
		for !ch.closed {
			in.co.current.waitDL = dl
			if r := intrinsics["verifWait"](in, fr, nil).(*Term); r == in.st.False {
				break
			}
		}
		if ch.closed {
			in.raceAcquireVC(ch.closeVC)
			return in.st.True
		}
		if dl == 0 {
			in.yieldUntil(func() bool { return ch.closed }) // nobody is left to close it: reported as a deadlock
			return in.st.True
		}
		intrinsics["verifClockAdvanceTo"](in, fr, []Value{in.st.Const(uint64(dl+1), 64)})
		return in.st.False
	}
	intrinsics["verifWaitDL"] = func(in *Interp, fr *frame, a []Value) Value {
		in.co.current.waitDL = in.mustConst(a[0].(*Term), "wait deadline")
		r := intrinsics["verifWait"](in, fr, nil)
		return r
	}
	intrinsics["verifWait"] = func(in *Interp, fr *frame, a []Value) Value {
		// "Can anybody else still do something?"  Other goroutines that are themselves only polling
		// in verifWait do not count once they have polled since the last real progress: two pollers
		// must not keep each other waiting for ever.
		s := in.co
		me := s.current
		if in.pickNext(me) == nil {
			return in.st.False
		}
		if a == nil {
			// called through verifWaitDL: the deadline is set
		} else {
			me.waitDL = 0
		}
		allIdle, earlier := true, false
		var busy *coro
		for _, o := range s.coros {
			if o == me || !in.runnable(o) {
				continue
			}
			if !(o.inWait && o.polledAt == s.progress) {
				allIdle = false
				if busy == nil {
					busy = o
				}
			} else if o.waitDL != 0 && (me.waitDL == 0 || o.waitDL < me.waitDL) {
				earlier = true // when nothing else can happen, the earliest deadline fires first
			}
		}
		if allIdle && me.polledAt == s.progress && !earlier {
			return in.st.False
		}
		me.polledAt = s.progress
		me.inWait = true
		if busy != nil && s.policy != "free" {
			// whatever the policy, a poller must not starve somebody who has real work to do
			alt := in.pickNext(me)
			if alt != nil && alt.inWait && alt.polledAt == s.progress {
				s.prefer = busy
			}
		}
		in.yieldUntil(nil) // waiting always lets the others run, whatever the policy
		me.inWait = false
		return in.st.True
	}
}

func init() {
	fprint := func(format func(in *Interp, a []Value) StrV) nativeFn {
		return func(in *Interp, fr *frame, a []Value) Value {
			w := a[0].(IfaceV)
			s := format(in, a)
			if w.T == nil {
				in.goPanicRuntime("nil io.Writer")
			}
			m := in.findMethod(w.T, "Write")
			if m == nil {
				in.unsupported("fmt.Fprint* to a writer without Write")
			}
			r := in.callFn(fr, m, []Value{w.V, in.bytesToSlice(s.B)}, nil)
			return r
		}
	}
	nativeTable["fmt.Fprintf"] = fprint(func(in *Interp, a []Value) StrV {
		return in.sprintf(in.mustConcStr(a[1], "format"), a[2].(SliceV))
	})
	nativeTable["fmt.Fprint"] = fprint(func(in *Interp, a []Value) StrV {
		args := a[1].(SliceV)
		f := ""
		for i := 0; i < args.Len; i++ {
			f += "%v"
		}
		return in.sprintf(f, args)
	})
}

func init() {
	// OpenTelemetry global providers: opaque non-nil handles whose methods are stubs.
	prov := func(typ string) nativeFn {
		return func(in *Interp, fr *frame, a []Value) Value {
			t := in.world.namedType("go.opentelemetry.io/otel/internal/global", typ)
			return IfaceV{T: types.NewPointer(t), V: PtrV{C: in.newFlatCell(types.Typ[types.Uint8], 1)}}
		}
	}
	nativeTable["go.opentelemetry.io/otel.GetMeterProvider"] = prov("meterProvider")
	nativeTable["go.opentelemetry.io/otel.GetTracerProvider"] = prov("tracerProvider")
}

func init() {
	n := nativeTable
	// tickers never fire on their own in the model
	n["time.NewTicker"] = func(in *Interp, fr *frame, a []Value) Value {
		tt := in.world.namedType("time", "Ticker")
		c := in.newCell(tt)
		in.nextID++
		ch := &ChanV{id: in.nextID, cap: 1, et: in.world.namedType("time", "Time")}
		in.store(PtrV{C: c.Kids[0]}, tt.Underlying().(*types.Struct).Field(0).Type(), ch)
		return PtrV{C: c}
	}
	n["(*time.Ticker).Stop"] = func(in *Interp, fr *frame, a []Value) Value { return nil }
	n["(*time.Timer).Stop"] = func(in *Interp, fr *frame, a []Value) Value { return in.st.True }
	n["runtime.NumCPU"] = func(in *Interp, fr *frame, a []Value) Value { return in.st.Const(4, 64) }
	n["runtime.Gosched"] = func(in *Interp, fr *frame, a []Value) Value { in.Yield(); return nil }
}
