package sym

import (
	"fmt"
	"go/types"
)

// Minimal reflect model: exactly the calls ColAuto.Infer makes
// (ValueOf(x).MethodByName(n), IsValid, Type().NumOut(), Call(nil)[0].Interface()).

type rvInfo struct {
	val    IfaceV // for plain values
	method *FuncV // for method values
	recv   Value
	sig    *types.Signature
}

func (in *Interp) rvNew(info *rvInfo) Value {
	in.nextID++
	id := in.nextID
	in.ext[fmt.Sprintf("rv:%d", id)] = info
	return StructV{PtrV{}, PtrV{}, in.st.Const(uint64(id), 64)}
}

func (in *Interp) rvGet(v Value) *rvInfo {
	s := v.(StructV)
	id := s[2].(*Term)
	if !id.IsConst() || id.Val == 0 {
		return nil
	}
	r, _ := in.ext[fmt.Sprintf("rv:%d", id.Val)].(*rvInfo)
	return r
}

func init() {
	n := nativeTable
	n["reflect.ValueOf"] = func(in *Interp, fr *frame, a []Value) Value {
		iv := a[0].(IfaceV)
		if iv.T == nil {
			return in.zero(in.world.namedType("reflect", "Value"))
		}
		return in.rvNew(&rvInfo{val: iv})
	}
	n["(reflect.Value).MethodByName"] = func(in *Interp, fr *frame, a []Value) Value {
		info := in.rvGet(a[0])
		name := in.mustConcStr(a[1], "MethodByName")
		zero := in.zero(in.world.namedType("reflect", "Value"))
		if info == nil || info.method != nil {
			return zero
		}
		ms := in.prog.MethodSets.MethodSet(info.val.T)
		for i := 0; i < ms.Len(); i++ {
			sel := ms.At(i)
			if sel.Obj().Name() == name && sel.Obj().Exported() {
				fn := in.prog.MethodValue(sel)
				if fn == nil {
					return zero
				}
				return in.rvNew(&rvInfo{method: &FuncV{Fn: fn}, recv: info.val.V, sig: sel.Type().(*types.Signature)})
			}
		}
		return zero
	}
	n["(reflect.Value).IsValid"] = func(in *Interp, fr *frame, a []Value) Value {
		return in.st.Bool(in.rvGet(a[0]) != nil)
	}
	n["(reflect.Value).Type"] = func(in *Interp, fr *frame, a []Value) Value {
		info := in.rvGet(a[0])
		if info == nil {
			panic(goPanic{msg: "reflect: call of reflect.Value.Type on zero Value", site: in.site()})
		}
		rt := in.world.namedType("reflect", "rtype")
		c := in.newCell(rt)
		in.ext[fmt.Sprintf("rt:%d", c.ID)] = info
		return IfaceV{T: types.NewPointer(rt), V: PtrV{C: c}}
	}
	n["(*reflect.rtype).NumOut"] = func(in *Interp, fr *frame, a []Value) Value {
		info, _ := in.ext[fmt.Sprintf("rt:%d", a[0].(PtrV).C.ID)].(*rvInfo)
		if info == nil || info.sig == nil {
			panic(goPanic{msg: "reflect: NumOut of non-func type", site: in.site()})
		}
		return in.st.Const(uint64(info.sig.Results().Len()), 64)
	}
	n["(reflect.Value).Call"] = func(in *Interp, fr *frame, a []Value) Value {
		info := in.rvGet(a[0])
		if info == nil || info.method == nil {
			panic(goPanic{msg: "reflect: Call of non-method Value", site: in.site()})
		}
		if args := a[1].(SliceV); args.Len != 0 {
			in.unsupported("reflect.Value.Call with arguments")
		}
		res := in.callValue(fr, info.method, []Value{info.recv}, nil)
		rs := info.sig.Results()
		vt := in.world.namedType("reflect", "Value")
		cell := in.newArrayCell(vt, rs.Len())
		for i := 0; i < rs.Len(); i++ {
			var v Value = res
			if rs.Len() > 1 {
				v = res.(TupleV)[i]
			}
			boxed := IfaceV{T: rs.At(i).Type(), V: v}
			if _, isI := rs.At(i).Type().Underlying().(*types.Interface); isI {
				boxed = v.(IfaceV)
			}
			in.store(PtrV{C: cell.Kids[i]}, vt, in.rvNew(&rvInfo{val: boxed}))
		}
		return SliceV{C: cell, Len: rs.Len(), Cap: rs.Len()}
	}
	n["(reflect.Value).Interface"] = func(in *Interp, fr *frame, a []Value) Value {
		info := in.rvGet(a[0])
		if info == nil {
			panic(goPanic{msg: "reflect: call of reflect.Value.Interface on zero Value", site: in.site()})
		}
		return info.val
	}

	// strings.Builder escape-analysis helpers
	n["(*strings.Builder).copyCheck"] = func(in *Interp, fr *frame, a []Value) Value { return nil }
	n["internal/abi.NoEscape"] = func(in *Interp, fr *frame, a []Value) Value { return a[0] }
	n["internal/abi.Escape"] = func(in *Interp, fr *frame, a []Value) Value { return a[0] }
}

func init() {
	// github.com/segmentio/asm/bswap.swap64 is assembly on amd64: reverse every 8-byte group.
	nativeTable["github.com/segmentio/asm/bswap.swap64"] = func(in *Interp, fr *frame, a []Value) Value {
		s := a[0].(SliceV)
		b := in.sliceBytes(s, 1)
		for i := 0; i+8 <= len(b); i += 8 {
			for j := 0; j < 8; j++ {
				s.C.setByte(s.Off+i+j, b[i+7-j])
			}
		}
		return nil
	}
}

// ----- net/netip: 4/16-byte big-endian identity (unique.Handle zones are not modelled)
func init() {
	n := nativeTable
	addrType := func(in *Interp) *types.Struct {
		return in.world.namedType("net/netip", "Addr").Underlying().(*types.Struct)
	}
	mkAddr := func(in *Interp, hi, lo *Term) Value {
		su := addrType(in)
		return StructV{StructV{hi, lo}, in.zero(su.Field(1).Type())}
	}
	n["net/netip.AddrFrom4"] = func(in *Interp, fr *frame, a []Value) Value {
		b := a[0].(ArrayV)
		st := in.st
		lo := st.Concat(st.Const(0xffff, 32), b[0].(*Term), b[1].(*Term), b[2].(*Term), b[3].(*Term))
		return mkAddr(in, st.Const(0, 64), lo)
	}
	n["(net/netip.Addr).As4"] = func(in *Interp, fr *frame, a []Value) Value {
		lo := a[0].(StructV)[0].(StructV)[1].(*Term)
		st := in.st
		return ArrayV{st.Extract(lo, 31, 24), st.Extract(lo, 23, 16), st.Extract(lo, 15, 8), st.Extract(lo, 7, 0)}
	}
	n["net/netip.AddrFrom16"] = func(in *Interp, fr *frame, a []Value) Value {
		b := a[0].(ArrayV)
		st := in.st
		var hi, lo []*Term
		for i := 0; i < 8; i++ {
			hi = append(hi, b[i].(*Term))
			lo = append(lo, b[8+i].(*Term))
		}
		return mkAddr(in, st.Concat(hi...), st.Concat(lo...))
	}
	n["(net/netip.Addr).As16"] = func(in *Interp, fr *frame, a []Value) Value {
		s := a[0].(StructV)[0].(StructV)
		st := in.st
		out := make(ArrayV, 16)
		for i := 0; i < 8; i++ {
			out[i] = st.Extract(s[0].(*Term), 63-8*i, 56-8*i)
			out[8+i] = st.Extract(s[1].(*Term), 63-8*i, 56-8*i)
		}
		return out
	}
	// time.Time.AddDate: Go's calendar arithmetic is not the subject; an uninterpreted function of its arguments
	n["(time.Time).AddDate"] = func(in *Interp, fr *frame, a []Value) Value {
		t := a[0].(StructV)
		st := in.st
		args := []*Term{t[0].(*Term), t[1].(*Term), a[1].(*Term), a[2].(*Term), a[3].(*Term)}
		sec := st.UF("AddDate.sec", 64, args...)
		// result: no monotonic reading, nanoseconds preserved
		return StructV{st.And(t[0].(*Term), st.Const((1<<30)-1, 64)), sec, t[2]}
	}
	n["time.now"] = func(in *Interp, fr *frame, a []Value) Value {
		st := in.st
		return TupleV{in.freshVar("now.sec", 64), st.Const(0, 32), st.Const(0, 64)}
	}
	n["time.runtimeNano"] = func(in *Interp, fr *frame, a []Value) Value { return in.freshVar("nanotime", 64) }
	n["time.runtimeNow"] = n["time.now"]
	n["runtime.GOROOT"] = func(in *Interp, fr *frame, a []Value) Value { return in.strConst("/usr/local/go") }
	n["syscall.Getenv"] = func(in *Interp, fr *frame, a []Value) Value { return TupleV{StrV{}, in.st.False} }
	n["os.Getenv"] = func(in *Interp, fr *frame, a []Value) Value { return StrV{} }
}

func init() {
	// time.LoadLocation reads tzdata: nondeterministic stub (error, or an opaque non-nil location)
	nativeTable["time.LoadLocation"] = func(in *Interp, fr *frame, a []Value) Value {
		name := a[0].(StrV)
		lt := in.world.namedType("time", "Location")
		if cs, ok := concStr(name); ok && (cs == "" || cs == "UTC") {
			utc := in.prog.ImportedPackage("time").Var("UTC")
			return TupleV{in.load(PtrV{C: in.global(utc)}, types.NewPointer(lt)), IfaceV{}}
		}
		if in.choice(2, "LoadLocation") == 0 {
			return TupleV{PtrV{}, in.newErrorString("errors", in.strConst("unknown time zone"))}
		}
		c := in.newCell(lt)
		in.store(PtrV{C: c.Kids[0]}, types.Typ[types.String], name)
		return TupleV{PtrV{C: c}, IfaceV{}}
	}
}
