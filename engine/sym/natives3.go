package sym

import (
	"fmt"
	"go/types"
)

// Minimal reflect model: exactly the calls ColAuto.Infer makes
// (ValueOf(x).MethodByName(n), IsValid, Type().NumOut(), Call(nil)[0].Interface()).

type rvInfo struct {
	val    IfaceV // for plain values
	method *FuncV // for method values
	recv   Value
	sig    *types.Signature
}

func (in *Interp) rvNew(info *rvInfo) Value {
	in.nextID++
	id := in.nextID
	in.ext[fmt.Sprintf("rv:%d", id)] = info
	return StructV{PtrV{}, PtrV{}, in.st.Const(uint64(id), 64)}
}

func (in *Interp) rvGet(v Value) *rvInfo {
	s := v.(StructV)
	id := s[2].(*Term)
	if !id.IsConst() || id.Val == 0 {
		return nil
	}
	r, _ := in.ext[fmt.Sprintf("rv:%d", id.Val)].(*rvInfo)
	return r
}

func init() {
	n := nativeTable
	n["reflect.ValueOf"] = func(in *Interp, fr *frame, a []Value) Value {
		iv := a[0].(IfaceV)
		if iv.T == nil {
			return in.zero(in.world.namedType("reflect", "Value"))
		}
		return in.rvNew(&rvInfo{val: iv})
	}
	n["(reflect.Value).MethodByName"] = func(in *Interp, fr *frame, a []Value) Value {
		info := in.rvGet(a[0])
		name := in.mustConcStr(a[1], "MethodByName")
		zero := in.zero(in.world.namedType("reflect", "Value"))
		if info == nil || info.method != nil {
			return zero
		}
		ms := in.prog.MethodSets.MethodSet(info.val.T)
		for i := 0; i < ms.Len(); i++ {
			sel := ms.At(i)
			if sel.Obj().Name() == name && sel.Obj().Exported() {
				fn := in.prog.MethodValue(sel)
				if fn == nil {
					return zero
				}
				return in.rvNew(&rvInfo{method: &FuncV{Fn: fn}, recv: info.val.V, sig: sel.Type().(*types.Signature)})
			}
		}
		return zero
	}
	n["(reflect.Value).IsValid"] = func(in *Interp, fr *frame, a []Value) Value {
		return in.st.Bool(in.rvGet(a[0]) != nil)
	}
	n["(reflect.Value).Type"] = func(in *Interp, fr *frame, a []Value) Value {
		info := in.rvGet(a[0])
		if info == nil {
			panic(goPanic{msg: "reflect: call of reflect.Value.Type on zero Value", site: in.site()})
		}
		rt := in.world.namedType("reflect", "rtype")
		c := in.newCell(rt)
		in.ext[fmt.Sprintf("rt:%d", c.ID)] = info
		return IfaceV{T: types.NewPointer(rt), V: PtrV{C: c}}
	}
	n["(*reflect.rtype).NumOut"] = func(in *Interp, fr *frame, a []Value) Value {
		info, _ := in.ext[fmt.Sprintf("rt:%d", a[0].(PtrV).C.ID)].(*rvInfo)
		if info == nil || info.sig == nil {
			panic(goPanic{msg: "reflect: NumOut of non-func type", site: in.site()})
		}
		return in.st.Const(uint64(info.sig.Results().Len()), 64)
	}
	n["(reflect.Value).Call"] = func(in *Interp, fr *frame, a []Value) Value {
		info := in.rvGet(a[0])
		if info == nil || info.method == nil {
			panic(goPanic{msg: "reflect: Call of non-method Value", site: in.site()})
		}
		if args := a[1].(SliceV); args.Len != 0 {
			in.unsupported("reflect.Value.Call with arguments")
		}
		res := in.callValue(fr, info.method, []Value{info.recv}, nil)
		rs := info.sig.Results()
		vt := in.world.namedType("reflect", "Value")
		cell := in.newArrayCell(vt, rs.Len())
		for i := 0; i < rs.Len(); i++ {
			var v Value = res
			if rs.Len() > 1 {
				v = res.(TupleV)[i]
			}
			boxed := IfaceV{T: rs.At(i).Type(), V: v}
			if _, isI := rs.At(i).Type().Underlying().(*types.Interface); isI {
				boxed = v.(IfaceV)
			}
			in.store(PtrV{C: cell.Kids[i]}, vt, in.rvNew(&rvInfo{val: boxed}))
		}
		return SliceV{C: cell, Len: rs.Len(), Cap: rs.Len()}
	}
	n["(reflect.Value).Interface"] = func(in *Interp, fr *frame, a []Value) Value {
		info := in.rvGet(a[0])
		if info == nil {
			panic(goPanic{msg: "reflect: call of reflect.Value.Interface on zero Value", site: in.site()})
		}
		return info.val
	}

	// strings.Builder escape-analysis helpers
	n["(*strings.Builder).copyCheck"] = func(in *Interp, fr *frame, a []Value) Value { return nil }
	n["internal/abi.NoEscape"] = func(in *Interp, fr *frame, a []Value) Value { return a[0] }
	n["internal/abi.Escape"] = func(in *Interp, fr *frame, a []Value) Value { return a[0] }
}

func init() {
	// github.com/segmentio/asm/bswap.swap64 is assembly on amd64: reverse every 8-byte group.
	nativeTable["github.com/segmentio/asm/bswap.swap64"] = func(in *Interp, fr *frame, a []Value) Value {
		s := a[0].(SliceV)
		b := in.sliceBytes(s, 1)
		for i := 0; i+8 <= len(b); i += 8 {
			for j := 0; j < 8; j++ {
				s.C.setByte(s.Off+i+j, b[i+7-j])
			}
		}
		return nil
	}
}
