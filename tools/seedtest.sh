#!/bin/sh
# usage: tools/seedtest.sh <seed-name> <property> <demo package dir relative to repo root> [only-harness-filter]
# Confirms a seeded change in its scratch worktree (/tmp/wt-<seed>): compiles, repo suite passes, the
# demonstration fails with it and passes without it; then applies it to /repo, runs the property's quick
# check and reverts /repo. Results are kept under /verif/seeded/<seed>/.
set -u
export GOFLAGS=-mod=mod GOPROXY=off GOSUMDB=off GOTOOLCHAIN=local
SEED="$1"; PROP="$2"; DIR="$3"; ONLY="${4:-}"
WT=/tmp/wt-$SEED; SRC=/tmp/seed-$SEED; OUT=/verif/seeded/$SEED
mkdir -p "$OUT"
cp "$SRC/patch.diff" "$OUT/patch.diff"; cp "$SRC/demo_test.go" "$OUT/demo_test.go"; cp "$SRC/notes.md" "$OUT/notes.md" 2>/dev/null
cd "$WT" || exit 2
git checkout -q -- . ; git apply "$SRC/patch.diff" || { echo "patch does not apply"; exit 2; }
go build ./... || { echo BUILD-FAIL; exit 2; }
SUITE=$(go test -vet=off -count=1 ./... 2>&1 | grep -c "^FAIL")
cp "$SRC/demo_test.go" "$WT/$DIR/zz_seed_demo_test.go"
DEMO_WITH=$(cd "$WT/$DIR" && go test -vet=off -count=1 -run 'Seed|Demo|C[0-9][0-9]b?' . 2>&1 | tail -1)
git apply -R "$SRC/patch.diff"
DEMO_WITHOUT=$(cd "$WT/$DIR" && go test -vet=off -count=1 -run 'Seed|Demo|C[0-9][0-9]b?' . 2>&1 | tail -1)
rm -f "$WT/$DIR/zz_seed_demo_test.go"
echo "suite-fail-count=$SUITE demo-with-change: $DEMO_WITH | demo-without: $DEMO_WITHOUT"
# run the check against the scratch worktree with the change applied (same commit as /repo's HEAD;
# /repo itself and /verif/evidence stay untouched: GOSYM_REPO / GOSYM_OUT)
cd "$WT" && git apply "$SRC/patch.diff" || { echo "patch does not re-apply"; exit 2; }
[ "$(git -C "$WT" rev-parse HEAD)" = "$(git -C /repo rev-parse HEAD)" ] || echo "WARNING: worktree is not at /repo's HEAD"
cd /verif
SOUT=/tmp/seedout-$SEED; rm -rf $SOUT; mkdir -p $SOUT
if [ -n "$ONLY" ]; then
  GOSYM_REPO=$WT GOSYM_OUT=$SOUT bin/gosym check -prop "$PROP" -tier quick -only "$ONLY" > "$OUT/check.log" 2>&1; CODE=$?
else
  GOSYM_REPO=$WT GOSYM_OUT=$SOUT bin/gosym check -prop "$PROP" -tier quick > "$OUT/check.log" 2>&1; CODE=$?
fi
rm -rf $SOUT
echo "check exit=$CODE"; grep -E "^VIOLATION|^  harness=|^INCONCLUSIVE|^KNOWN|^OK" "$OUT/check.log" | cut -c1-260 | head -8
python3 - "$SEED" "$PROP" "$SUITE" "$DEMO_WITH" "$DEMO_WITHOUT" "$CODE" <<'PY'
import json,sys,os
seed,prop,suite,dw,dwo,code=sys.argv[1:7]
out=f"/verif/seeded/{seed}/meta.json"
log=open(f"/verif/seeded/{seed}/check.log").read()
viol=[l.strip() for l in log.splitlines() if l.startswith("  harness=")][:3]
meta={"seed":seed,"property":prop,"repo_suite_failures_with_change":int(suite),"demo_with_change":dw,"demo_without_change":dwo,
 "check_cmd":f"bin/gosym check -prop {prop} -tier quick against a scratch worktree of /repo HEAD with patch.diff applied (GOSYM_REPO), evidence redirected (GOSYM_OUT)","check_exit":int(code),"detected":int(code)==1,
 "violations":viol,"needs":open(f"/verif/seeded/{seed}/notes.md").read()[:1500] if os.path.exists(f"/verif/seeded/{seed}/notes.md") else ""}
json.dump(meta,open(out,"w"),indent=1)
PY
