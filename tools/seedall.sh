#!/bin/sh
# usage: tools/seedall.sh [seed ...]
# Re-runs the registered quick check of each seeded change's property against a scratch worktree of
# /repo's HEAD with the change applied (never /repo itself), evidence and replays redirected to a
# scratch directory, and records the outcome in seeded/<seed>/meta.json ("detected_now").
set -u
export GOFLAGS=-mod=mod GOPROXY=off GOSUMDB=off GOTOOLCHAIN=local
cd /verif || exit 2
WT=/tmp/wt-seedall; OUT=/tmp/seedall-out
git -C /repo worktree remove --force $WT 2>/dev/null; rm -rf $WT $OUT
git -C /repo worktree add -q --detach $WT HEAD || exit 2
mkdir -p $OUT
SEEDS="$*"; [ -z "$SEEDS" ] && SEEDS=$(ls seeded)
for s in $SEEDS; do
  [ -f seeded/$s/patch.diff ] || continue
  prop=$(python3 -c "import json;print(json.load(open('seeded/$s/meta.json'))['property'])")
  git -C $WT checkout -q -- . ; git -C $WT clean -fdq
  if ! git -C $WT apply /verif/seeded/$s/patch.diff 2>/dev/null; then echo "$s $prop PATCH-DOES-NOT-APPLY"; continue; fi
  (cd $WT && go build ./... ) || { echo "$s $prop BUILD-FAIL"; continue; }
  GOSYM_REPO=$WT GOSYM_OUT=$OUT timeout 3000 bin/gosym check -prop $prop -tier quick > $OUT/$s.log 2>&1; code=$?
  lab=$(grep -m1 "^  harness=" $OUT/$s.log | sed 's/ site=.*//' | cut -c1-120)
  echo "$s $prop exit=$code $lab"
  python3 - "$s" "$code" "$OUT/$s.log" <<'PY'
import json,sys
s,code,log=sys.argv[1],int(sys.argv[2]),sys.argv[3]
p=f"/verif/seeded/{s}/meta.json"; d=json.load(open(p))
d["detected_now"]=(code==1)
d["violations_now"]=[l.strip()[:300] for l in open(log) if l.startswith("  harness=")][:3]
json.dump(d,open(p,"w"),indent=1)
PY
done
git -C /repo worktree remove --force $WT; rm -rf $OUT
