#!/usr/bin/env python3
"""Regenerates /verif/MANIFEST.json from the table below."""
import json, os

TECH = "bounded symbolic execution of the real go/ssa code (own engine gosym) decided by z3 (SMT, bit-vectors); counterexamples replayed natively"

CHECKS = {
 "C14": dict(
   level="model_checking",
   text="Every operation sequence over {ChainBuffer k bytes, ChainWrite k-byte slice, Flush} up to the stated length, with every sink failure budget, is executed symbolically on the real Writer/net.Buffers code with all byte contents symbolic; the delivered bytes are asserted equal to the concatenation model after every flush. Exhaustive over histories within the bound, for all byte values.",
   ref="DESIGN.md §4 C14",
   note="bounds: ops<=3 (quick) / 4 (thorough), 0..3 bytes per op, sink budget -1..4; both append growth policies (double / exact); WriteBlock+Flush == EncodeBlock and WriteColumn == EncodeColumn for all C01 shapes, and for String/Bytes/Array(String)/Nullable(String)/LowCardinality(String) columns holding a value of 127,128,255,256,1023,1024,1025,4095,4096,16383 or 16384 bytes (first/middle/last byte symbolic) before, after or next to short values; engine fidelity checked by native witness replays; append growth policy fixed (double); preemption not modelled (Writer is single-owner)"),
 "C17": dict(
   level="model_checking",
   text="Each message's real EncodeAware/DecodeAware pair is executed symbolically with the protocol revision as ONE symbolic int (so every revision, hence both sides of every threshold, is covered by the version-comparison forks) and all field values symbolic; per path the solver decides (a) encoded bytes == bytes of an independent reference encoder with its own threshold table, (b) decode(encode(x)) == x with the fields absent at that revision zero, (c) the reader is exactly exhausted.",
   ref="DESIGN.md §4 C17",
   note="bounds: integers all <128 plus each integer field alone over its full 64-bit range (quick: first field only for Query); strings of tied length 0..1/2 with free contents; <=1 setting and <=1 parameter (quick); OpenTelemetry span: absent in the Query harness; VerifC17Span checks a valid span (trace id, span id, flags byte symbolic; trace state empty) against the reference and back, at every revision (otel's span-context accessors interpreted, the rest of otel stubbed); Query decode below 54429 is rejected by design and not asserted; the reference encoder is trusted as the oracle (written from the protocol description, thresholds cross-checked once)"),
 "C01": dict(
   level="model_checking",
   text="For each column type (31 generated fixed-width codecs, String, Bytes, Bool, UUID, FixedString(N), Nothing, Point, Interval, Enum8/16, DateTime, DateTime64(p)) and for Array/Nullable/LowCardinality/Map/Tuple compositions up to depth 2, the real EncodeBlock -> DecodeBlock path is executed symbolically with all cell values, string bytes, pre-existing buffer bytes and the protocol revision symbolic; the solver decides: prefix untouched, bytes independent of the buffer's prior content, typed decode == appended values, inferred decode (Results.Auto) == same name/type/values, reader exhausted. Both the default (unsafe) and the purego build are encoded for the leaf codecs.",
   ref="DESIGN.md §4 C01",
   note="bounds: rows<=2 (quick)/3-4 (thorough), inner arrays/maps <=2, strings <=1-2 bytes, buffer prefix in {0,3,8} bytes, depth<=2; Decimal(P, S) as servers spell it through Results.Auto() for every P in 1..76; LowCardinality dictionaries of 254..257 entries (UInt8/UInt16 key switch) and strings of 127/128 bytes (VerifC01Boundaries); outside: other dictionaries >3 entries, the UInt16/UInt32 key switch at 65536 entries (about 4 GB per symbolic path), ColMap.Append(map) iteration order, JSON, non-UTC zones; Array(Array(T)), FixedString(N) with N not a power of two, Bytes, Point and Map are not inferable by the library and are checked typed only; reflect calls in ColAuto.Infer go through a method-set model; bswap.swap64 (asm) is modelled natively"),
 "C07": dict(
   level="model_checking",
   text="For every block shape of C01 (all leaf codecs, compositions to depth 2) and every protocol message of C17 the library's own encoder output is cut at EVERY position 0..len-1 (enumerated) with symbolic contents and revision, and the real decoder (typed and inferred) is executed on the prefix; the assertion is a non-nil error on every path.",
   ref="DESIGN.md §4 C07",
   note="bounds: rows<=1-2, strings<=1 byte, inner<=1; messages with one-byte varints except one 2-byte field; plain streams here, compressed frames cut in C05; the cut is applied to a bytes.Reader (segmentation is C08)"),
 "C15": dict(
   level="translation_validation",
   text="The same harness is executed in two SSA programs built from /repo (tags verif and verif,purego) on the same symbolic inputs, sharing one term store and solver session; for each of the 33 two-variant codecs x {EncodeColumn after 0/3/8 arbitrary bytes, WriteColumn+Flush, DecodeColumn of arbitrary bytes (complete or one byte short) into a fresh or reset column} every emitted value (bytes, error class, row count, decoded rows) is asserted equal by the solver; divergences are replayed in both native builds.",
   ref="DESIGN.md §4 C15",
   note="bounds: rows<=2 (quick)/3; all element values and input bytes symbolic (so 8/16-bit element types are covered exhaustively per row); amd64 little-endian layout for the unsafe build; bswap.swap64 asm modelled natively in both programs"),
 "C06": dict(
   level="model_checking",
   text="Every byte of the input is a symbolic variable: DecodeState+DecodeColumn of each column type and composition (rows 0..2), every message decoder with a symbolic revision, and whole blocks through Results.Auto and a typed target are executed on L arbitrary bytes. Implicit assertions on every path: no Go panic, no loop beyond the unwind bound, no allocation request that can exceed the by-design ceiling (100M rows x 512 B); explicit: on success Rows()==rows and every Row(i) is called. No mutation list is involved - all count/length/offset/key/meta values within L bytes are covered.",
   ref="DESIGN.md §4 C06",
   note="bounds: L = 6..36 input bytes depending on the target (see evidence), counts that become shapes enumerated up to 6/12 values per site (larger counts are out-of-bound paths, counted); allocation ceiling 51.2e9 bytes; two known findings (unchecked string length allocation in ColStr.DecodeColumn and Reader.StrRaw) are reported as KNOWN-FINDING; native replays run under ulimit -v 16 GiB"),
 "C16": dict(
   level="model_checking",
   text="For every column type and composition, every history of up to 3 steps (the thorough tier widens string and inner-array lengths to 0..1 instead of lengthening histories; generated fixed-width leaves: 2 / 3 steps) over {Append symbolic value, bulk append of two values, Reset, encode-without-reset, block decode of valid symbolic data into the used column, failed decode of a truncated block + Reset} is executed on ONE column object; after encode steps and at the end the bytes the used column produces (EncodeRawBlock: Prepare, state, column) are read back into a fresh column and the solver decides that they equal the harness' plain list of model values; decode-after-use must equal the decoded values. Values are symbolic, so 'same value again' and 'new value' are one path each and the solver picks the equality pattern.",
   ref="DESIGN.md §4 C16",
   note="bounds: histories <=3 steps, strings 1 byte, inner arrays 1 element in quick (0..1 thorough), decode blocks of 0..2 rows, revision fixed 54460; WriteColumn path equivalence is C14's; Infer-in-history is not a step (types fixed per column); LowCardinality(UInt8) additionally through histories of <=3/4 steps mixing server blocks with UInt8/16/32/64 keys (2-entry dictionary, 1..2 rows), relay-encode, Reset and Append"),
 "C20": dict(
   level="model_checking",
   text="The real conversion functions (ToDate/Date.Time, ToDate32, ToDateTime, ToDateTime64/DateTime64.Time at each precision 0..9, Precision.Scale, Int128/256 and UInt128/256 helpers, bin*/binPut*, IPv4/IPv6 mappings, Interval.Add) and the parts of package time they call (Unix, In, Zone, FixedZone, Add, IsZero) are executed symbolically; the raw value ranges over its WHOLE type or documented range (all 65536 Dates, all 2^32 DateTimes, Date32 1900..2299, DateTime64 1900..2299 per precision), the instant (sec,nsec) and the fixed zone offset (-12h..+14h) are symbolic; the solver (integer-with-wrap encoding, z3 5.1.0) decides value->time->value identity, calendar-day = floor((unix+offset)/86400), |time->value->time| < 1 tick and exactness on multiples of the tick.",
   ref="DESIGN.md §4 C20",
   note="wide-integer helpers: inverse pairs AND value oracles (limbs) for the FromUInt64/FromInt constructors; outside: named zones with DST (tzdata), AddDate's own calendar arithmetic (uninterpreted function of its arguments), intervals whose span exceeds time.Duration (about 292 years); netip 4/16-byte conversions modelled as identity; known finding: quarter added as 4 months (pinned by the repo's own test, so not repaired)"),
 "C19": dict(
   level="model_checking",
   text="ColumnType.Base/Elem/Conflicts/decimalDowncast/normalizeCommas and ColAuto.Infer (with ColEnum.parse, ColDateTime64.Infer, ColMap.Infer, ColInterval.Infer, inferGenerated) are executed on type strings whose bytes are symbolic: (i) arbitrary strings up to 3-5 bytes (pairs for the relation), (ii) strings assembled from the library's vocabulary of 19 base names with symbolic or nested parameters (all ordered pairs), (iii) well-formed templates with symbolic digits / enumerated leaf types. Assertions: no panic, Conflicts(a,a)==false, Conflicts(a,b)==Conflicts(b,a), and on a nil error the created column's own Type() does not conflict with the request in either direction.",
   ref="DESIGN.md §4 C19",
   note="bounds: free strings <=3 (quick)/5 bytes for pairs, <=4/6 for Infer; parameters <=1-2 symbolic bytes; bytes restricted to 7-bit ASCII (unicode tables not interpreted); time.LoadLocation is a nondeterministic stub; DecimalNN(S) spellings are checked for totality only (the statement's equivalences name Decimal(P,S)<->DecimalNN); the unbounded-depth symmetry argument (abstract induction step of DESIGN) is not built"),
 "C18": dict(
   level="model_checking",
   text="Results.DecodeResult / Block.DecodeRawBlock are executed on blocks written by the harness' reference writer: 1..2 columns drawn from 13 server type strings (incl. parameter-only and spacing variants), symbolic names and cells, 0..1 rows, against 0..2 targets drawn from 14 column kinds with blank or symbolic names, at a symbolic revision. On a nil error the solver decides: counts equal (or the documented no-target/no-rows case), names equal after blank filling, every (server,target) pair is in the harness' explicit compatible-or-open set, each target holds exactly its own column's cells (re-encoded bytes == wire bytes), inferable targets adopted precision / enum definition. On an error: a block whose pairs are all must-bind is only rejected for a name mismatch, and every target is empty or holds its own column's cells. A second harness checks blank-name filling and enforcement across two blocks.",
   ref="DESIGN.md §4 C18",
   note="bounds: <=2 columns (quick: all 13x14 pairs for one column, 4x4 kinds for two columns), names 1 byte, rows<=1; type strings outside the tables and named zones other than UTC (tzdata) are outside; block sequences: two one-column blocks (rows 1, then 0..1) drawn from 18 types incl. same-base pairs (Array(UInt8/UInt64/String), Nullable(UInt8/UInt32), DateTime64(3/6), Decimal(9/18), Enum8 with two different value lists, Enum16, DateTime with/without zone) against one auto-inferred target: the second block is rejected or the target equals a fresh target bound to the second type (type string, parameters, cells)"),
 "C05": dict(
   level="model_checking",
   text="compress.Writer.Compress and compress.Reader.Read/readBlock are executed symbolically: (a) 1..2 frames of symbolic payloads, every method, every read size: decompressed bytes == payload and EOF afterwards; (b) a fully symbolic 25-byte header + tail: no allocation request above the documented 128 MiB limits, no panic; (c) every single-byte alteration (offset enumerated over the whole frame, new value symbolic) is rejected, with a *CorruptedDataErr carrying the stored checksum when the length fields are intact, and the Read after the failure hands out nothing; (d) every proper prefix of a frame is rejected.",
   ref="DESIGN.md §4 C05",
   note="bounds: payload <=3 (quick)/6 bytes, <=2 frames, read sizes 1..3/5; CityHash128 is an uninterpreted function with a per-path no-collision assumption; LZ4/LZ4HC/ZSTD are an opaque codec pair (levels, real bit streams outside; the LZ4 model honours the library's destination-size contract: below CompressBlockBound an incompressible payload yields (0, nil)); method None is interpreted byte for byte"),
 "C08": dict(
   level="model_checking",
   text="proto.Reader (bufio + io.ReadFull + binary.ReadUvarint) and compress.Reader are executed over a harness transport that returns the SAME symbolic stream in pieces - one byte per Read, two pieces at every offset, and all 2^(n-1) segmentations of the leading bytes - for every block shape of C01, for Progress/Profile messages whose varints take 1..3 bytes behind one already-consumed byte of the same segment, and for two-frame compressed streams; the solver decides that values, row counts and bytes consumed equal the single-segment outcome, and that a cut stream still fails under each segmentation.",
   ref="DESIGN.md §4 C08",
   note="bounds: rows<=1 (quick)/2, all segmentations of the first 5 (quick)/8 bytes, one-byte delivery and every two-piece split for the whole stream; message varints <= 3 bytes (16/21-bit fields); the client-level part of the property (read timeouts between packets retried by Do's receive loop) is covered by the C03/C04 harness family when built, not here"),
 "C02": dict(
   level="model_checking",
   text="The real Client.Do (sender, receiver and cancel-watch goroutines run as cooperative coroutines over errgroup/context models) is executed against a harness net.Conn with the negotiated revision symbolic (all revisions at once), all Query strings, settings (client and query level, flags), parameters, external data and input cells symbolic, compression disabled or enabled (method None framing, CityHash uninterpreted). The bytes recorded by the connection are asserted equal to the output of an independent reference encoder: one Query packet with the caller's fields in order, [external block] + empty block, then input block + empty block, each a Data packet with table name and exactly one checksummed frame iff compression is on; parameters are refused before 54459 with nothing written. Streamed input (OnInput, <=2 rounds; the C09 harness) is run under this property too: each round's block, as it was when the round began, in order, then one terminator.",
   ref="DESIGN.md §4 C02",
   note="bounds: strings of tied length 0..1 (quick)/2, <=1 client setting, <=1 query setting, <=1 parameter, external data one UInt64 column, input <=2 columns (UInt64, String) x <=2 rows; LZ4/ZSTD bit streams outside (opaque codec); OpenTelemetry off; scheduling: first-runnable policy (the written bytes do not depend on the schedule in these scenarios)"),
 "C09": dict(
   level="model_checking",
   text="Client.Do with OnInput is executed for every callback history of up to 2 (quick)/3 (thorough) rounds over {append a row, reset+append, overwrite row 0 in place, reset to nothing} x final result {io.EOF, wrapped io.EOF, other error}, initial rows 0..2, a zero-copy column (ColUInt64) or ColStr, with and without framing; all cells symbolic. The client-to-server bytes are asserted equal to query + terminator + one reference-encoded block per round holding the shadow model's contents when the round began + exactly one terminator; bytes delivered before a callback ran must be a prefix of the final stream (no rewriting through aliased memory); a callback error fails Do and no Data block follows the failing round.",
   ref="DESIGN.md §4 C09",
   note="bounds: <=2/3 rounds, <=2 initial rows, one input column, revision 54460, method None framing; the connection copies at Write time (exact aliasing model); LZ4/ZSTD streams and write segmentation by the kernel are outside"),
 "C03": dict(
   level="model_checking",
   text="Client.Do is executed against scripts of up to 2 (quick)/3 (thorough) server packets drawn from {Data, Totals (0/1 rows or the empty end marker), Progress, Profile, TableColumns, Log, ProfileEvents, Exception (chain depth 1..3 quick / 1..4 thorough), EndOfStream} with all field values, cells and exception codes symbolic, with and without OnResult and with a failing callback at a chosen invocation. Assertions: the callback trace (results with the bound column's contents at callback time, progress, profile, logs, profile events) equals the projection of the script in order; Do returns nil iff the script ended with EndOfStream and no callback failed (incl. the no-OnResult single-block rule); an exception is recovered by errors.As with code/name/message/stack/chain and every code of the chain matches errors.Is.",
   ref="DESIGN.md §4 C03",
   note="bounds: <=2/3 packets, one result column (UInt64), 1-row telemetry blocks, integer fields 7 bit, revisions {54460, 54453, 54419, 51902} in quick (one symbolic revision >= 50264 in thorough), compression off, plus one run of the 2-packet scripts with connection compression enabled (Data/Totals in checksummed frames of method None, city.CH128 uninterpreted; telemetry blocks unframed; ServerCode.Compressible asserted to agree with that framing), instrumentation off; non-preemptive schedules only"),
 "C12": dict(
   tech="bounded symbolic execution of the real go/ssa code (own engine gosym, paths decided by z3); on every symbolic path a happens-before (vector clock) relation over the modelled synchronisation operations is an implicit assertion: no two conflicting accesses of library code unordered; reported races are replayed natively under the Go race detector",
   level="model_checking",
   text="Client.Do's sender, receiver and cancel-watch goroutines (real errgroup, context model) are executed symbolically over a goroutine-safe scripted connection for a SELECT (progress, data, profile, end of stream), a streamed INSERT whose progress packets arrive while blocks are still being sent, the SELECT with Client.Close called from a foreign goroutine, and a Ping afterwards; OpenTelemetry instrumentation off and on (no-op tracer); three scheduling policies; a chpool shared by two goroutines plus the idle health check. A happens-before (vector clock) analysis inside the executor treats 'two conflicting accesses of library code not ordered by go/channel/close/select/Mutex/Once/WaitGroup/Pool/atomic/context edges' as an implicit assertion on every symbolic path. A reported race is replayed in a -race build and must be confirmed by the Go race detector; witness replays run under -race too and a native report on an engine-clean path makes the check inconclusive.",
   ref="DESIGN.md §2.8, §4 C12",
   note="bounds: the enumerated scenarios, one block per packet, revision 54460, compression off; the verdict on a path covers every input value of that path and every interleaving with the same synchronisation order, not every schedule of the program; accesses inside native models (errors, fmt, zap, otel other than span contexts, bytealg, time) are not tracked; the happens-before model is coarser than the Go memory model only in the direction of more edges (may miss, cannot invent); 'unordered' is a vector-clock comparison, the solver decides path feasibility and the for-all-values part"),
 "C13": dict(
   level="model_checking",
   text="The real Connect/Dial/handshake (two goroutines under the cooperative scheduler) are executed with the client revision AND the server revision as two symbolic integers (every pair), symbolic hello strings, credentials and quota key. Success: negotiated revision == min(client, server), ServerInfo() as sent, client bytes == reference hello + addendum iff min >= 54458 carrying the quota key, then Ping and a Query whose bytes equal the reference encoder at exactly the negotiated revision. Failure (exception, wrong packet, hello cut at every byte, silence): error carrying the exception, no client, the dialed connection closed. Delay: a hello arriving 1s/10s/100s into a 200s handshake timeout is accepted, through Connect and through Dial with a harness dialer (default DialTimeout).",
   ref="DESIGN.md §4 C13",
   note="bounds: strings 0..1 byte, one query; TLS and real dialing outside; clock is concrete (arrival instants enumerated); known finding: servers older than 54401 with a newer client (hello fields gated on the client's revision) - reported as KNOWN-FINDING by the separate harness VerifC13OldServer"),
 "C04": dict(
   level="model_checking",
   text="Client.Do (select and insert-with-schema scenarios, the server answering only what it has received a reason to answer) is executed with a fault at every point: server stream cut after byte k (all k), client write failing after byte k (all k), a failing user callback, an exception as the first thing the server sends (whole, or cut after any of its bytes), unknown and unexpected packet codes - under five non-preemptive scheduling policies (sender first, receiver first, round robin, and the two run-to-block variants). When Do returns an error the real IsClosed/Ping/Do are used to assert: closed => further calls return ErrClosed with zero connection calls; open => the next Ping writes exactly its own byte (nothing encoded for the failed query is sent later) and succeeds against a server that answers Pong after whatever it had already sent (a stream that was cut stays cut, a connection whose writes fail keeps failing). Exhausting the loop budget is reported as does-not-return.",
   ref="DESIGN.md §4 C04",
   note="bounds: two scenarios, one block each, revision 54460 (thorough: also 54459, 54453, 54445), compression off; switch points are channel operations, close(ch), WaitGroup.Wait and every call on the connection - orderings that need a preemption between two other statements are outside (cooperative coroutines); native replays of schedule-dependent counterexamples are repeated with random delays at the harness' yield points"),
 "C10": dict(
   level="model_checking",
   text="The caller's context is a harness type whose cancellation flips at the k-th observation (every Err/Done/Deadline call is a gate; k enumerated 0..10/24), for the select and insert scenarios, a responsive or a forever-silent server, writes that work, fail, or block because the peer has stopped reading (until the write deadline, if one is still set, or until the connection is closed) from the moment the context is done, a server that is done, silent, or streaming a packet every 100 ms, and five scheduling policies; plus the same during Connect's hello exchange. When Do fails after the flip: errors.Is(err, context.Canceled), connection closed, client closed, the written bytes are a prefix of the reference stream ending at a flush boundary followed by at most one byte, which must be the Cancel code 3, and no goroutine of the call is left (engine-level leak check); with no caller deadline, a deadline one hour away, and deadlines that themselves expire (error must match context.DeadlineExceeded), the call is back within 3 s of the cancellation on the harness' virtual clock (a blocked read returns at the deadline the client set, so a read deadline taken from the caller's deadline instead of ReadTimeout shows as lateness); a loop that never observes the cancellation is reported as does-not-return.",
   ref="DESIGN.md §4 C10",
   note="bounds: gates <=10 (quick)/24; promptness is measured on the harness' virtual clock (time.Now is a model; a blocked Read advances it to the read deadline), real wall-clock time and goroutines blocked in a real kernel read are outside; a deadline context expires at its deadline on that clock (2.5 s and 0.4 s against ReadTimeout 1 s) and the error must then match context.DeadlineExceeded; the handshake harness uses cancellation only; non-preemptive schedules only"),
 "C11": dict(
   level="model_checking",
   text="chpool (Acquire, Release, Do/Ping through a handle, checkIdleConnsHealth, Close) is executed together with the REAL github.com/jackc/puddle/v2 pool and x/sync/semaphore, interpreted from their SSA with goroutines as cooperative coroutines, over connections dialed from a scripted server. Histories: every sequence of <=4 (quick) / 5 (thorough) operations over {acquire, release of any handle ever handed out, ping through a held handle, idle health check, death of a held client} against a model of who holds what (acquired count == model, one holder per connection, dead connections never reissued, open <= MaxConns); plus the scripted ones: acquire/release/release-again/re-acquire/stale release by a previous holder/third acquire with MaxConns 1..2; a client closed while held; lifetime exceeded at release; idle time exceeded at the health check; healthy idle connections; pool Close. Assertions: a released handle is inert (repeated and stale releases change nothing, never panic), a connection has one holder (a third acquire never returns the connection another handle holds), open connections <= MaxConns, closed/expired connections are destroyed and not reissued, everything dialed is closed after Close.",
   ref="DESIGN.md §4 C11",
   note="bounds: sequential handle histories of <=4/5 operations over <=2 connections; all interleavings of concurrent holders on real threads and the ticker-driven background goroutine are NOT decided (tickers never fire in the model; the health check is called directly); clock is concrete (1 ms per time.Now)"),
}

NA = {
}

def main():
    props=[json.loads(l)["id"] for l in open("/verif/properties.jsonl")]
    checks=[]
    for pid in props:
        if pid in CHECKS:
            c=CHECKS[pid]
            checks.append({
              "property_id":pid,
              "quick_cmd":f"./check {pid} quick",
              "thorough_cmd":f"./check {pid} thorough",
              "evidence_file":f"/verif/evidence/{pid}.json",
              "replay_cmd_template":"bin/gosym check -replay {path}",
              "engine":"gosym",
              "level_claimed":{"category":c["level"],"text":c["text"],"design_ref":c["ref"]},
              "level_note":c["note"],
              "technique":c.get("tech",TECH),
            })
    na=[]
    for pid in props:
        if pid not in CHECKS:
            na.append({"property_id":pid,"reason":NA.get(pid,"check not built yet in this session (work in progress; see DESIGN.md §7 build order)")})
    m={
     "version":1,
     "setup_cmd":"cd /verif/engine && GOFLAGS=-mod=mod GOPROXY=off GOSUMDB=off GOTOOLCHAIN=local go build -o /verif/bin/gosym ./cmd/gosym",
     "hooks":{"guard":"verif",
       "enable":"harnesses are injected by overlay (packages.Config.Overlay / go test -overlay) as /repo/<pkg>/zz_verif_*.go under build tag verif; nothing in /repo is edited for instrumentation",
       "baseline_off_cmd":"cd /repo && GOFLAGS=-mod=mod GOPROXY=off GOSUMDB=off GOTOOLCHAIN=local go test -vet=off -count=1 -timeout 25m ./...",
       "source_commits":[],"add_only":True},
     "engines":[{"name":"gosym","path":"/verif/engine","serves_properties":sorted(CHECKS),"kind_free_text":"bounded symbolic executor for go/ssa (x/tools v0.29.0), path forking by re-execution, z3 4.8.12 back end over one long-lived process per worker; harnesses in /verif/harness are overlay-injected in-package Go files"}],
     "checks":checks,
     "not_applicable":na,
     "notes":"All claims are bounded (see evidence bounds and DESIGN.md). Exit 0 = held on everything explored; 1 = reproduced violation; 2 = inconclusive (unwind/unsupported/unknown/vacuous)."
    }
    json.dump(m,open("/verif/MANIFEST.json","w"),indent=1)
    print("wrote MANIFEST.json with",len(checks),"checks")

if __name__=="__main__":
    main()
