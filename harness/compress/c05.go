//go:build verif

package compress

import (
	"bytes"
	"io"

	"github.com/go-faster/errors"
)

var vMethods = []Method{None, LZ4, LZ4HC, ZSTD}

// vReadAll reads the whole stream with reads of size k; returns bytes and the first error.
func vReadAll(r *Reader, k, want int) ([]byte, error) {
	var out []byte
	zero := 0
	buf := make([]byte, k)
	for len(out) < want {
		n, err := r.Read(buf)
		out = append(out, buf[:n]...)
		if err != nil {
			return out, err
		}
		if n == 0 {
			// (0, nil) is legal for an io.Reader (an empty frame); io.ReadFull simply calls again
			zero++
			if zero > 3 {
				verifFail("read-makes-no-progress")
			}
		}
	}
	return out, nil
}

// vReadEnd keeps reading until an error; returns the bytes handed out meanwhile.
func vReadEnd(r *Reader) (int, error) {
	buf := make([]byte, 4)
	total := 0
	for i := 0; i < 4; i++ {
		n, err := r.Read(buf)
		total += n
		if err != nil {
			return total, err
		}
	}
	return total, nil
}

// VerifC05RoundTrip: frames produced by Writer.Compress decompress to the payload across
// frame boundaries and read sizes; after the last frame the reader reports EOF.
func VerifC05RoundTrip() {
	m := vMethods[verifChoice("method", len(vMethods))]
	w := NewWriter(LevelZero, m)
	nframes := verifIntRange("frames", 1, 2)
	var stream, want []byte
	for f := 0; f < nframes; f++ {
		if f > 0 {
			// one stream may mix methods: a frame names its own
			w = NewWriter(LevelZero, vMethods[verifChoice("method", len(vMethods))])
		}
		var x []byte
		if verifChoice("payload-kind", 2) == 0 {
			// a run of one byte (64, then 40 of them): to the opaque codec model like any other
			// payload, to the real codecs of a native replay a payload that actually compresses
			// (matches, not only literals) and that fits into the buffers the previous frame left
			x = bytes.Repeat([]byte{verifU8("run")}, 64-24*f)
		} else {
			x = verifBytes("payload", verifIntRange("len", 0, verifParam("maxlen", 4)))
		}
		err := w.Compress(x)
		verifAssert(err == nil, "compress-ok")
		stream = append(stream, w.Data...)
		want = append(want, x...)
	}
	r := NewReader(bytes.NewReader(stream))
	k := verifIntRange("readsize", 1, verifParam("maxread", 3))
	got, err := vReadAll(r, k, len(want))
	verifAssert(err == nil, "read-ok")
	verifAssert(vBytesEq(got, want), "decompressed==payload")
	n, err := vReadEnd(r)
	verifAssert(n == 0 && err != nil && errors.Is(err, io.EOF), "eof-after-last-frame")
	verifObserveBytes("got", got)
}

// VerifC05Header: a hostile 25-byte header followed by arbitrary bytes never makes the
// reader request more than the documented 128 MiB limits, and never panics.
func VerifC05Header() {
	data := verifBytes("in", 25+verifParam("tail", 2))
	r := NewReader(bytes.NewReader(data))
	buf := make([]byte, 4)
	verifAllocMark()
	_, err := r.Read(buf)
	verifAllocCheck(2*(128<<20) + 1<<20) // the two documented 128 MiB limits, and slack
	if err != nil {
		verifNote("rejected")
	} else {
		verifNote("accepted")
	}
}

// VerifC05Corrupt: any single altered byte of a frame is rejected; with the length fields
// intact the error is a *CorruptedDataErr carrying both checksums; and the reader hands
// out nothing on the reads that follow.
func VerifC05Corrupt() {
	m := vMethods[verifChoice("method", len(vMethods))]
	w := NewWriter(LevelZero, m)
	x := verifBytes("payload", verifIntRange("len", 0, verifParam("maxlen", 3)))
	err := w.Compress(x)
	verifAssert(err == nil, "compress-ok")
	frame := append([]byte(nil), w.Data...)
	off := verifIntRange("offset", 0, len(frame)-1)
	nb := verifU8("newbyte")
	verifAssume(nb != frame[off])
	orig := append([]byte(nil), frame...)
	frame[off] = nb
	// a second, intact frame follows: it must not be served as if nothing happened to the first
	r := NewReader(bytes.NewReader(frame))
	buf := make([]byte, 8)
	n, rerr := r.Read(buf)
	verifAssert(rerr != nil, "corrupted-frame-rejected")
	verifAssert(n == 0, "no-bytes-with-error")
	if off < 17 || off >= 25 {
		var ce *CorruptedDataErr
		ok := errors.As(rerr, &ce)
		verifAssert(ok, "corruption-error-kind")
		if ok {
			lo := uint64(orig[0]) | uint64(orig[1])<<8 | uint64(orig[2])<<16 | uint64(orig[3])<<24 | uint64(orig[4])<<32 | uint64(orig[5])<<40 | uint64(orig[6])<<48 | uint64(orig[7])<<56
			if off >= 16 {
				verifAssert(ce.Reference.Low == lo, "reference-checksum-is-the-stored-one")
				verifAssert(vOr(ce.Actual.Low != ce.Reference.Low, ce.Actual.High != ce.Reference.High), "actual-differs")
			}
		}
	}
	// reads that follow a failure hand out nothing
	n2, err2 := r.Read(buf)
	verifAssert(vOr(err2 != nil, n2 == 0), "no-unverified-bytes-after-failure")
	verifAssert(n2 == 0, "no-bytes-after-failure")
}

// VerifC05Truncated: every proper prefix of a frame stream is rejected (C07 for compressed streams).
func VerifC05Truncated() {
	m := vMethods[verifChoice("method", len(vMethods))]
	w := NewWriter(LevelZero, m)
	x := verifBytes("payload", verifIntRange("len", 1, verifParam("maxlen", 3)))
	err := w.Compress(x)
	verifAssert(err == nil, "compress-ok")
	cut := verifIntRange("cut", 0, len(w.Data)-1)
	r := NewReader(bytes.NewReader(w.Data[:cut]))
	_, rerr := vReadAll(r, 2, len(x))
	verifAssert(rerr != nil, "truncated-frame-rejected")
}

// VerifC08Frames (C08): frames delivered in pieces - split inside the checksum, the header,
// the payload - decompress to the same bytes.
func VerifC08Frames() {
	m := vMethods[verifChoice("method", 2)]
	w := NewWriter(LevelZero, m)
	var stream, want []byte
	for f := 0; f < 2; f++ {
		x := verifBytes("payload", verifIntRange("len", 0, verifParam("maxlen", 2)))
		if err := w.Compress(x); err != nil {
			verifFail("compress")
		}
		stream = append(stream, w.Data...)
		want = append(want, x...)
	}
	cr := &vChunkReader{data: stream}
	if verifChoice("segmentation", 2) == 0 {
		cr.policy = 0
	} else {
		cr.policy = 1
		cr.k = verifIntRange("split", 1, len(stream)-1)
	}
	r := NewReader(cr)
	got, err := vReadAll(r, verifIntRange("readsize", 1, 2), len(want))
	verifAssert(err == nil, "segmented-frames-ok")
	verifAssert(vBytesEq(got, want), "segmented-frames==payload")
	n, err := vReadEnd(r)
	verifAssert(n == 0 && err != nil, "segmented-frames-eof")
	verifObserveU64("reads", uint64(cr.reads))
}
