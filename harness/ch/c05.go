//go:build verif

package ch

import (
	"context"

	"github.com/go-faster/errors"

	"github.com/ClickHouse/ch-go/compress"
	"github.com/ClickHouse/ch-go/proto"
)

// VerifC05Client: a compressed result block whose frame was altered in one byte makes Do fail,
// with the client's exported *CorruptedDataErr (both checksums) when the length fields are
// intact; the unaltered stream is delivered.
func VerifC05Client() {
	v := 54460
	x := verifU64("cell")
	var body rb
	body.block0([]rCol{{name: "a", typ: "UInt64", u64: []uint64{x}}}, v)
	var frame rb
	frame.frame(body.b)
	alter := verifChoice("alter", 2) == 1
	off := 0
	if alter {
		off = verifIntRange("offset", 0, len(frame.b)-1)
		nb := verifU8("newbyte")
		verifAssume(nb != frame.b[off])
		frame.b[off] = nb
	}
	var script rb
	script.uv(1)
	script.str("")
	script.b = append(script.b, frame.b...)
	script.srvEndOfStream()
	conn := vNewConn(script.b)
	conn.maxIdle = 1
	c := vNewClient(conn, v, proto.CompressionEnabled, compress.None, nil)
	col := new(proto.ColUInt64)
	got := 0
	q := Query{Body: "SELECT", QueryID: "q1", Result: proto.Results{{Name: "a", Data: col}},
		OnResult: func(ctx context.Context, b proto.Block) error { got++; return nil }}
	err := c.Do(context.Background(), q)
	if !alter {
		verifAssert(err == nil, "intact-frame-accepted")
		verifAssert(got == 1 && col.Rows() == 1 && (*col)[0] == x, "intact-frame-delivered")
		return
	}
	verifAssert(err != nil, "altered-frame-fails-the-query")
	verifAssert(got == 0, "altered-frame-never-delivered")
	if off < 17 || off >= 25 {
		var ce *CorruptedDataErr
		verifAssert(errors.As(err, &ce), "client-corruption-error")
		if ce != nil {
			verifAssert(vOr(ce.Actual.Low != ce.Reference.Low, ce.Actual.High != ce.Reference.High), "client-checksums-differ")
		}
	}
}
