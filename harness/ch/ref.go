//go:build verif

package ch

import (
	"github.com/go-faster/city"

	"github.com/ClickHouse/ch-go/proto"
)

// Independent reference encoder (client side of the native protocol), written from
// DESIGN.md Appendix A with its own revision thresholds.

const (
	rBlockInfo       = 51903
	rQuotaKeyInCI    = 54060
	rVersionPatch    = 54401
	rTempTables      = 50264
	rClientInfo      = 54420
	rSettingsStrings = 54429
	rSecret          = 54441
	rOpenTelemetry   = 54442
	rDistDepth       = 54448
	rQueryStartTime  = 54449
	rParallelRepl    = 54453
	rCustomSerial    = 54454
	rAddendum        = 54458
	rParameters      = 54459
	rElapsedNs       = 54460
	rTimezone        = 54058
	rDisplayName     = 54372
)

type rb struct{ b []byte }

func (r *rb) u8(v byte) { r.b = append(r.b, v) }
func (r *rb) uv(x uint64) {
	for x >= 0x80 {
		r.b = append(r.b, byte(x)|0x80)
		x >>= 7
	}
	r.b = append(r.b, byte(x))
}
func (r *rb) vint(x int) { r.uv(uint64(x)) }
func (r *rb) str(s string) {
	r.uv(uint64(len(s)))
	r.b = append(r.b, s...)
}
func (r *rb) boolean(v bool) {
	if v {
		r.u8(1)
	} else {
		r.u8(0)
	}
}
func (r *rb) u32(v uint32) { r.b = append(r.b, byte(v), byte(v>>8), byte(v>>16), byte(v>>24)) }
func (r *rb) u64(v uint64) {
	r.u32(uint32(v))
	r.u32(uint32(v >> 32))
}

type rSetting struct {
	key, value string
	important  bool
	custom     bool
}

type rQuery struct {
	span                                    *[24]byte // OpenTelemetry trace id + span id of the caller's span (nil: none)
	spanFlags                               byte
	id, body, secret, quotaKey, initialUser string
	compression                             bool
	settings                                []rSetting
	params                                  []rSetting
	clientName                              string
	major, minor, patch, rev                int
	addr                                    string
}

func (r *rb) setting(s rSetting) {
	r.str(s.key)
	var f uint64
	if s.important {
		f |= 1
	}
	if s.custom {
		f |= 2
	}
	r.uv(f)
	r.str(s.value)
}

// query writes a Query packet at revision v.
func (r *rb) query(q rQuery, v int) {
	r.u8(1)
	r.str(q.id)
	if v >= rClientInfo {
		r.u8(1) // initial query
		r.str(q.initialUser)
		r.str(q.id)
		r.str(q.addr)
		if v >= rQueryStartTime {
			r.u64(0)
		}
		r.u8(1) // TCP
		r.str("")
		r.str("")
		r.str(q.clientName)
		r.vint(q.major)
		r.vint(q.minor)
		r.vint(q.rev)
		if v >= rQuotaKeyInCI {
			r.str(q.quotaKey)
		}
		if v >= rDistDepth {
			r.vint(0)
		}
		if v >= rVersionPatch {
			r.vint(q.patch)
		}
		if v >= rOpenTelemetry {
			if q.span != nil {
				// ids as 64-bit words, each byte-reversed; empty trace state; the flags byte as it is
				r.u8(1)
				for w := 0; w < 3; w++ {
					for i := 7; i >= 0; i-- {
						r.u8(q.span[w*8+i])
					}
				}
				r.str("")
				r.u8(q.spanFlags)
			} else {
				r.u8(0)
			}
		}
		if v >= rParallelRepl {
			r.vint(0)
			r.vint(0)
			r.vint(0)
		}
	}
	if v >= rSettingsStrings {
		for _, s := range q.settings {
			r.setting(s)
		}
	}
	r.str("")
	if v >= rSecret {
		r.str(q.secret)
	}
	r.uv(2)
	if q.compression {
		r.uv(1)
	} else {
		r.uv(0)
	}
	r.str(q.body)
	if v >= rParameters {
		for _, p := range q.params {
			r.setting(rSetting{key: p.key, value: p.value, custom: true})
		}
		r.str("")
	}
}

type rCol struct {
	name, typ string
	u64       []uint64 // UInt64 cells
	strs      []string // String cells
	isStr     bool
	raw       []byte // pre-encoded cells of any fixed-width type (useRaw)
	n         int
	useRaw    bool
	lc        bool // LowCardinality(String), <=1 row (strs)
}

func (c rCol) rows() int {
	if c.useRaw {
		return c.n
	}
	if c.isStr || c.lc {
		return len(c.strs)
	}
	return len(c.u64)
}

func (r *rb) cells(c rCol) {
	switch {
	case c.lc && len(c.strs) > 1:
		// LowCardinality(String), several rows: the dictionary in order of first appearance
		// (UInt8 keys), then one key per row
		var dict []string
		keys := make([]byte, len(c.strs))
		for i, s := range c.strs {
			k := -1
			for j, d := range dict {
				if d == s {
					k = j
				}
			}
			if k < 0 {
				k = len(dict)
				dict = append(dict, s)
			}
			keys[i] = byte(k)
		}
		r.u64(1)
		r.u64(0 | 1<<9 | 1<<10)
		r.u64(uint64(len(dict)))
		for _, d := range dict {
			r.str(d)
		}
		r.u64(uint64(len(keys)))
		r.b = append(r.b, keys...)
	case c.lc:
		// LowCardinality(String) with at most one row: nothing at all for no rows (neither the
		// serialization-state prefix nor the column); otherwise state, meta (UInt8 keys, additional
		// keys, update dictionary), the one-entry dictionary, the one key
		if len(c.strs) == 0 {
			return
		}
		r.u64(1)
		r.u64(0 | 1<<9 | 1<<10)
		r.u64(1)
		r.str(c.strs[0])
		r.u64(1)
		r.u8(0)
	case c.useRaw:
		r.b = append(r.b, c.raw...)
	case c.isStr:
		for _, s := range c.strs {
			r.str(s)
		}
	default:
		for _, x := range c.u64 {
			r.u64(x)
		}
	}
}

// block writes a block body (info, counts, columns) at revision v.
func (r *rb) block(cols []rCol, v int) {
	rows := 0
	if len(cols) > 0 {
		rows = cols[0].rows()
	}
	if v >= rBlockInfo {
		r.uv(1)
		r.u8(0)
		r.uv(2)
		if len(cols) > 0 {
			r.u32(0xffffffff) // bucket -1
		} else {
			r.u32(0)
		}
		r.uv(0)
	}
	r.vint(len(cols))
	r.vint(rows)
	for _, c := range cols {
		r.str(c.name)
		r.str(c.typ)
		if v >= rCustomSerial {
			r.u8(0)
		}
		r.cells(c)
	}
}

// data writes a client Data packet: code, table name, block (one checksummed frame when compressed).
// method: 0 = uncompressed stream, 0x02 = frame with method None.
func (r *rb) data(table string, cols []rCol, v int, framed bool) {
	r.u8(2)
	if v >= rTempTables {
		r.str(table)
	}
	if !framed {
		r.block(cols, v)
		return
	}
	var body rb
	body.block(cols, v)
	var hdr rb
	hdr.u8(0x02)
	hdr.u32(uint32(len(body.b) + 9))
	hdr.u32(uint32(len(body.b)))
	hdr.b = append(hdr.b, body.b...)
	h := city.CH128(hdr.b)
	r.u64(h.Low)
	r.u64(h.High)
	r.b = append(r.b, hdr.b...)
}

// frame wraps payload in one checksummed frame (method None).
func (r *rb) frame(payload []byte) {
	var hdr rb
	hdr.u8(0x02)
	hdr.u32(uint32(len(payload) + 9))
	hdr.u32(uint32(len(payload)))
	hdr.b = append(hdr.b, payload...)
	h := city.CH128(hdr.b)
	r.u64(h.Low)
	r.u64(h.High)
	r.b = append(r.b, hdr.b...)
}

// ---- server side

func (r *rb) srvEndOfStream() { r.uv(5) }

// srvData writes a server Data/Totals packet carrying a block.
func (r *rb) srvData(code byte, cols []rCol, v int) {
	r.uv(uint64(code))
	if v >= rTempTables {
		r.str("")
	}
	r.block0(cols, v)
}

// block0: server blocks carry bucket 0 in this model (any value is legal)
func (r *rb) block0(cols []rCol, v int) {
	rows := 0
	if len(cols) > 0 {
		rows = cols[0].rows()
	}
	if v >= rBlockInfo {
		r.uv(1)
		r.u8(0)
		r.uv(2)
		r.u32(0)
		r.uv(0)
	}
	r.vint(len(cols))
	r.vint(rows)
	for _, c := range cols {
		r.str(c.name)
		r.str(c.typ)
		if v >= rCustomSerial {
			r.u8(0)
		}
		r.cells(c)
	}
}

func (r *rb) srvException(code int32, name, msg, stack string, nested bool) {
	r.u32(uint32(code))
	r.str(name)
	r.str(msg)
	r.str(stack)
	r.boolean(nested)
}

func (r *rb) srvProgress(p proto.Progress, v int) {
	r.uv(3)
	r.uv(p.Rows)
	r.uv(p.Bytes)
	r.uv(p.TotalRows)
	if v >= rClientInfo {
		r.uv(p.WroteRows)
		r.uv(p.WroteBytes)
	}
	if v >= rElapsedNs {
		r.uv(p.ElapsedNs)
	}
}

func (r *rb) srvProfile(p proto.Profile) {
	r.uv(6)
	r.uv(p.Rows)
	r.uv(p.Blocks)
	r.uv(p.Bytes)
	r.boolean(p.AppliedLimit)
	r.uv(p.RowsBeforeLimit)
	r.boolean(p.CalculatedRowsBeforeLimit)
}
