//go:build verif

package ch

import (
	"context"
	"io"
	"net"
	"sync"
	"sync/atomic"
	"time"

	"go.opentelemetry.io/otel/trace/noop"

	"github.com/ClickHouse/ch-go/compress"
	"github.com/ClickHouse/ch-go/proto"
)

// vRConn is a scripted connection that is itself safe for concurrent use the way a net.Conn is:
// the read side and the write side have a lock each and share only atomics (how much the client
// has written decides how much of the server's script is readable), so that whatever the race
// analysis - the engine's or the Go race detector's on a replay - reports is the library's.
type vRConn struct {
	rmu, wmu sync.Mutex
	script   []byte
	rpos     int      // under rmu
	gates    [][2]int // read-only after construction
	out      []byte   // under wmu
	written  atomic.Int64
	closed   atomic.Bool
	idles    int // under rmu
	maxIdle  int
}

func (c *vRConn) readable() int {
	lim := len(c.script)
	w := int(c.written.Load())
	for _, g := range c.gates {
		if w < g[0] && g[1] < lim {
			lim = g[1]
		}
	}
	return lim - c.rpos
}

func (c *vRConn) Read(p []byte) (int, error) {
	verifYield()
	c.rmu.Lock()
	defer c.rmu.Unlock()
	for {
		if c.closed.Load() {
			return 0, vConnErr{"use of closed network connection"}
		}
		if n := c.readable(); n > 0 {
			if n > len(p) {
				n = len(p)
			}
			copy(p, c.script[c.rpos:c.rpos+n])
			c.rpos += n
			return n, nil
		}
		if !verifWait() {
			c.idles++
			if c.idles > c.maxIdle {
				return 0, io.EOF
			}
			return 0, &net.OpError{Op: "read", Net: "tcp", Err: vTimeoutErr{}}
		}
	}
}

func (c *vRConn) Write(p []byte) (int, error) {
	verifYield()
	if c.closed.Load() {
		return 0, vConnErr{"use of closed network connection"}
	}
	c.wmu.Lock()
	c.out = append(c.out, p...)
	c.wmu.Unlock()
	c.written.Add(int64(len(p)))
	return len(p), nil
}

func (c *vRConn) Close() error                       { c.closed.Store(true); return nil }
func (c *vRConn) LocalAddr() net.Addr                { return vAddr{} }
func (c *vRConn) RemoteAddr() net.Addr               { return vAddr{} }
func (c *vRConn) SetDeadline(t time.Time) error      { return nil }
func (c *vRConn) SetReadDeadline(t time.Time) error  { return nil }
func (c *vRConn) SetWriteDeadline(t time.Time) error { return nil }

// VerifC12Query: the goroutines of one query (sender, receiver, cancel-watch), with and without
// OpenTelemetry instrumentation, optionally with Close called from a foreign goroutine, under the
// happens-before analysis: no two conflicting accesses of library code are unordered.
func VerifC12Query() {
	v := 54460
	verifSchedPolicy(vPolicies[verifChoice("policy", verifParam("policies", 3))], 0)
	otel := verifChoice("otel", 2) == 1
	scenario := verifChoice("scenario", 6)
	cell, cell2 := verifU64("cell"), verifU64("cell2")

	rq := rQuery{id: "q1", clientName: "cl", major: 1, minor: 2, patch: 3, rev: v, addr: "127.0.0.1:9"}
	var script, want rb
	var q Query
	conn := &vRConn{maxIdle: 1}
	switch scenario {
	case 0, 2, 3, 4, 5: // select: progress, data, profile, end of stream (3: an exception instead; 4: cancelled; 5: stream cut)
		col := new(proto.ColUInt64)
		q = Query{Body: "SELECT", QueryID: "q1", Result: proto.Results{{Name: "a", Data: col}},
			OnResult:   func(ctx context.Context, b proto.Block) error { return nil },
			OnProgress: func(ctx context.Context, p proto.Progress) error { return nil },
			OnProfile:  func(ctx context.Context, p proto.Profile) error { return nil }}
		rq.body = "SELECT"
		want.query(rq, v)
		want.data("", nil, v, false)
		script.srvProgress(proto.Progress{Rows: 1, Bytes: 8}, v)
		script.srvData(1, []rCol{{name: "a", typ: "UInt64", u64: []uint64{cell}}}, v)
		switch scenario {
		case 3:
			script.uv(2)
			script.srvException(60, "n", "m", "s", false)
		case 5:
			// the stream ends in the middle of the next packet: the receive loop fails, the cancel-watch cancels and closes
			script.uv(6)
			script.b = append(script.b, 1)
		default:
			script.srvProfile(proto.Profile{Rows: 1, Blocks: 1, Bytes: 8})
			script.srvEndOfStream()
		}
		conn.gates = [][2]int{{len(want.b), 0}}
		if scenario == 4 {
			// a silent server: only the caller's cancellation, from another goroutine, ends the query
			conn.gates = [][2]int{{1 << 30, 0}}
			conn.maxIdle = 1 << 20
		}
	case 1: // streamed insert: two rounds, the server reports progress while blocks are still being sent
		in := new(proto.ColUInt64)
		in.Append(cell)
		rounds := 0
		q = Query{Body: "INSERT", QueryID: "q1", Input: proto.Input{{Name: "a", Data: in}},
			OnProgress: func(ctx context.Context, p proto.Progress) error { return nil },
			OnInput: func(ctx context.Context) error {
				rounds++
				if rounds > 1 {
					return io.EOF
				}
				in.Reset()
				in.Append(cell2)
				return nil
			}}
		rq.body = "INSERT"
		want.query(rq, v)
		want.data("", nil, v, false)
		queryPart := len(want.b)
		want.data("", []rCol{{name: "a", typ: "UInt64", u64: []uint64{cell}}}, v, false)
		firstBlock := len(want.b)
		want.data("", []rCol{{name: "a", typ: "UInt64", u64: []uint64{cell2}}}, v, false)
		want.data("", nil, v, false)
		script.srvData(1, []rCol{{name: "a", typ: "UInt64"}}, v)
		schema := len(script.b)
		script.srvProgress(proto.Progress{Rows: 1, Bytes: 8}, v)
		progress := len(script.b)
		script.srvEndOfStream()
		conn.gates = [][2]int{{queryPart, 0}, {firstBlock, schema}, {len(want.b), progress}}
	}
	conn.script = script.b
	c := vNewClient(conn, v, proto.CompressionDisabled, compress.None, nil)
	if otel {
		c.otel = true
		c.tracer = noop.NewTracerProvider().Tracer("verif")
	}
	var wg sync.WaitGroup
	if scenario == 2 {
		// Close is documented as safe to call from another goroutine
		wg.Add(1)
		go func() {
			defer wg.Done()
			verifYield()
			_ = c.Close()
		}()
	}
	ctx := context.Background()
	if scenario == 4 {
		var cancel context.CancelFunc
		ctx, cancel = context.WithCancel(ctx)
		wg.Add(1)
		go func() {
			defer wg.Done()
			verifYield()
			cancel()
		}()
	}
	err := c.Do(ctx, q)
	wg.Wait()
	if scenario >= 3 {
		verifAssert(err != nil, "query-fails")
	}
	if scenario < 2 {
		verifAssert(err == nil, "query-ok")
		// pinging afterwards, on the same client
		conn.rmu.Lock()
		conn.script = append(conn.script, 4)
		conn.rmu.Unlock()
		verifAssert(c.Ping(context.Background()) == nil, "ping-ok")
	}
	_ = c.IsClosed()
	verifObserveU64("done", 1)
}
