//go:build verif

package ch

import (
	"context"
	"io"
	"net"
	"sync"
	"time"

	"go.uber.org/zap"

	"github.com/ClickHouse/ch-go/compress"
	"github.com/ClickHouse/ch-go/proto"
)

type vAddr struct{}

func (vAddr) Network() string { return "tcp" }
func (vAddr) String() string  { return "127.0.0.1:9" }

type vTimeoutErr struct{}

func (vTimeoutErr) Error() string   { return "i/o timeout" }
func (vTimeoutErr) Timeout() bool   { return true }
func (vTimeoutErr) Temporary() bool { return true }

type vConnErr struct{ msg string }

func (e vConnErr) Error() string { return e.msg }

// vConn is the simulated connection: a scripted server stream and a recorder of
// everything the client writes.
type vConn struct {
	script []byte // server -> client
	rpos   int
	// release[i] = {after, upto}: script bytes up to `upto` become readable once the client wrote `after` bytes
	gateAfter   int // client bytes that must be written before script[gateFrom:] is readable
	gateFrom    int
	gates       [][2]int // {after, from}: script[from:] is readable only once the client wrote `after` bytes
	cutAt       int      // -1: never; otherwise the stream ends (EOF) after cutAt bytes
	brokenOnce  *vCtx    // writes fail from the moment this context is done
	stalledOnce *vCtx    // writes block (until their deadline, if any) from the moment this context is done
	closeCh     chan struct{}
	closeErr    bool // Close closes and reports an error
	closeOnce   sync.Once
	// paced delivery (a streaming server): from script offset paceFrom on, one packet of paceEvery bytes every pace
	pace         time.Duration
	paceEvery    int
	paceFrom     int
	paceStart    time.Time
	failedWrites int
	maxIdle      int // read timeouts delivered when nothing more arrives, then EOF

	out             []byte // client -> server, copied at Write time
	writeLens       []int  // length of every Write call
	failAfter       int    // -1: never; otherwise writes fail once this many bytes were accepted
	closed          int
	idles           int
	reads           int
	readDL          []time.Time
	writeDL         []time.Time
	callsAfterClose int
	idleAt          []int // script offsets (packet boundaries) at which one read timeout fires first
	idleFired       int
}

func vNewConn(script []byte) *vConn {
	return &vConn{script: script, cutAt: -1, failAfter: -1, maxIdle: 2, closeCh: make(chan struct{})}
}

func (c *vConn) readable() int {
	lim := len(c.script)
	if len(c.out) < c.gateAfter && c.gateFrom < lim {
		lim = c.gateFrom
	}
	for _, g := range c.gates {
		if len(c.out) < g[0] && g[1] < lim {
			lim = g[1]
		}
	}
	if c.cutAt >= 0 && c.cutAt < lim {
		lim = c.cutAt
	}
	return lim - c.rpos
}

func (c *vConn) Read(p []byte) (int, error) {
	verifYield()
	c.reads++
	for {
		if c.closed > 0 {
			c.callsAfterClose++
			return 0, vConnErr{"use of closed network connection"}
		}
		for i, off := range c.idleAt {
			if off == c.rpos && off >= 0 {
				// the read deadline expires before the next packet shows up
				c.idleAt[i] = -1
				c.idleFired++
				return 0, &net.OpError{Op: "read", Net: "tcp", Err: vTimeoutErr{}}
			}
		}
		if n := c.readable(); n > 0 {
			if c.pace > 0 && c.rpos >= c.paceFrom {
				// a server that streams: packet i of paceEvery bytes is on the wire i*pace after paceStart
				i := (c.rpos - c.paceFrom) / c.paceEvery
				arrival := c.paceStart.Add(time.Duration(i) * c.pace)
				if time.Now().Before(arrival) {
					if k := len(c.readDL); k > 0 && !c.readDL[k-1].IsZero() && c.readDL[k-1].Before(arrival) {
						verifClockAdvanceTo(c.readDL[k-1].UnixMilli())
						return 0, &net.OpError{Op: "read", Net: "tcp", Err: vTimeoutErr{}}
					}
					verifClockAdvanceTo(arrival.UnixMilli() + 1)
				}
				if end := c.paceFrom + (i+1)*c.paceEvery - c.rpos; n > end {
					n = end
				}
			}
			if n > len(p) {
				n = len(p)
			}
			for _, off := range c.idleAt {
				// nothing beyond a pending idle gap has arrived yet
				if off > c.rpos && off-c.rpos < n {
					n = off - c.rpos
				}
			}
			copy(p, c.script[c.rpos:c.rpos+n])
			c.rpos += n
			return n, nil
		}
		if c.cutAt >= 0 && c.rpos >= c.cutAt {
			return 0, io.EOF
		}
		var rdl int64
		if k := len(c.readDL); k > 0 && !c.readDL[k-1].IsZero() {
			rdl = c.readDL[k-1].UnixMilli()
		}
		if !verifWaitDL(rdl) {
			// nobody else can make progress: the read deadline expires; a silent server eventually hangs up
			c.idles++
			if c.idles > c.maxIdle {
				return 0, io.EOF
			}
			if n := len(c.readDL); n > 0 && !c.readDL[n-1].IsZero() {
				// the blocked read returns when its deadline is reached
				verifClockAdvanceTo(c.readDL[n-1].UnixMilli())
			}
			return 0, &net.OpError{Op: "read", Net: "tcp", Err: vTimeoutErr{}}
		}
	}
}

func (c *vConn) Write(p []byte) (int, error) {
	verifYield()
	if c.closed > 0 {
		c.callsAfterClose++
		return 0, vConnErr{"use of closed network connection"}
	}
	if c.brokenOnce != nil && c.brokenOnce.cancelled {
		// the peer is gone by the time the caller gives up: nothing can be written any more
		c.failedWrites++
		return 0, vConnErr{"write: broken pipe"}
	}
	if c.stalledOnce != nil && c.stalledOnce.cancelled {
		// the peer has stopped reading: a write blocks until its deadline, or for ever without one
		c.failedWrites++
		// ... as long as anybody else can still do something (close the connection, for one)
		var wdl int64
		if k := len(c.writeDL); k > 0 && !c.writeDL[k-1].IsZero() {
			wdl = c.writeDL[k-1].UnixMilli()
		}
		if verifAwaitClose(c.closeCh, wdl) {
			return 0, vConnErr{"use of closed network connection"}
		}
		return 0, &net.OpError{Op: "write", Net: "tcp", Err: vTimeoutErr{}}
	}
	c.writeLens = append(c.writeLens, len(p))
	if c.failAfter >= 0 && len(p) > c.failAfter {
		n := c.failAfter
		c.out = append(c.out, p[:n]...)
		c.failAfter = 0
		return n, vConnErr{"write: broken pipe"}
	}
	if c.failAfter >= 0 {
		c.failAfter -= len(p)
	}
	c.out = append(c.out, p...)
	return len(p), nil
}

func (c *vConn) Close() error {
	c.closed++
	if c.closeCh != nil {
		c.closeOnce.Do(func() { close(c.closeCh) }) // wakes a write that is blocked on a peer that stopped reading
	}
	if c.closeErr {
		// closed all the same; a tls.Conn reports this when it cannot send its close_notify
		return vConnErr{"close: broken pipe"}
	}
	return nil
}

func (c *vConn) LocalAddr() net.Addr  { verifYield(); return vAddr{} }
func (c *vConn) RemoteAddr() net.Addr { return vAddr{} }
func (c *vConn) SetDeadline(t time.Time) error {
	return nil
}
func (c *vConn) SetReadDeadline(t time.Time) error {
	if c.closed > 0 {
		c.callsAfterClose++
	}
	c.readDL = append(c.readDL, t)
	return nil
}
func (c *vConn) SetWriteDeadline(t time.Time) error {
	if c.closed > 0 {
		c.callsAfterClose++
	}
	c.writeDL = append(c.writeDL, t)
	return nil
}

// vCtx is the caller's context: cancellation flips at the k-th observation (gate).
type vCtx struct {
	mu          sync.Mutex // natively the context is observed from several goroutines at once
	gateAt      int        // -1: never cancelled
	gates       int
	cancelled   bool
	done        chan struct{}
	deadline    time.Time
	hasDL       bool
	expires     bool // the deadline is what ends the context: Err() is DeadlineExceeded from that instant on
	err         error
	cancelledAt time.Time
}

func vNewCtx(gateAt int) *vCtx { return &vCtx{gateAt: gateAt, done: make(chan struct{})} }

func (c *vCtx) fire(err error) {
	c.cancelled, c.err = true, err
	c.cancelledAt = time.Now()
	close(c.done)
}

// gate is one observation of the context; the k-th one cancels it.
func (c *vCtx) gate() {
	c.mu.Lock()
	fired := c.gateLocked()
	c.mu.Unlock()
	if fired {
		verifPollContexts() // derived contexts learn of it (they call back into Err)
	}
}

func (c *vCtx) gateLocked() bool {
	if c.cancelled {
		return false
	}
	if c.expires && !time.Now().Before(c.deadline) {
		c.fire(context.DeadlineExceeded)
		return true
	}
	if c.gateAt < 0 {
		return false
	}
	if c.gates == c.gateAt {
		if c.expires {
			// arbitrary time may pass between two observations: here, all that was left
			verifClockAdvanceTo(c.deadline.UnixMilli() + 1)
			c.fire(context.DeadlineExceeded)
		} else {
			c.fire(context.Canceled)
		}
		return true
	}
	c.gates++
	return false
}

func (c *vCtx) Deadline() (time.Time, bool) { c.gate(); return c.deadline, c.hasDL }
func (c *vCtx) Done() <-chan struct{}       { c.gate(); return c.done }
func (c *vCtx) Err() error {
	c.gate()
	c.mu.Lock()
	defer c.mu.Unlock()
	if c.cancelled {
		return c.err
	}
	return nil
}
func (c *vCtx) Value(key any) any { return nil }

// vNewClient builds a connected client without a handshake (the handshake is C13's subject).
func vNewClient(conn net.Conn, version int, compression proto.Compression, method compress.Method, settings []Setting) *Client {
	return &Client{
		lg:              zap.NewNop(),
		conn:            conn,
		writer:          proto.NewWriter(conn, new(proto.Buffer)),
		reader:          proto.NewReader(conn),
		protocolVersion: version,
		compression:     compression,
		compressor:      compress.NewWriter(compress.LevelZero, method),
		readTimeout:     time.Second,
		version:         clientVersion{Name: "cl", Major: 1, Minor: 2, Patch: 3},
		settings:        settings,
		info:            proto.ClientHello{Name: "cl", Major: 1, Minor: 2, ProtocolVersion: version, Database: "db", User: "u"},
		server:          proto.ServerHello{Name: "srv", Revision: version},
	}
}

// VerifServer is a scripted ClickHouse endpoint for harnesses outside this package (chpool):
// every dial yields a fresh simulated connection that answers the hello and then Pongs.
type VerifServer struct {
	mu       sync.Mutex // dials may come from several goroutines (C12)
	conns    []*vConn
	CloseErr bool // connections report an error from Close (and are closed all the same)
	Safe     bool // hand out connections that are themselves safe for concurrent use (C12)
	rconns   []*vRConn
}

func VerifNewServer() *VerifServer { return &VerifServer{} }

func (s *VerifServer) DialContext(ctx context.Context, network, address string) (net.Conn, error) {
	var script rb
	script.uv(0)
	script.str("srv")
	script.vint(1)
	script.vint(2)
	script.vint(54460)
	script.str("UTC")
	script.str("dn")
	script.vint(3)
	for i := 0; i < 8; i++ {
		script.uv(4)
	}
	if s.Safe {
		rc := &vRConn{script: script.b, maxIdle: 1}
		s.mu.Lock()
		s.rconns = append(s.rconns, rc)
		s.mu.Unlock()
		return rc, nil
	}
	c := vNewConn(script.b)
	c.maxIdle = 1
	c.closeErr = s.CloseErr
	s.mu.Lock()
	s.conns = append(s.conns, c)
	s.mu.Unlock()
	return c, nil
}

func (s *VerifServer) Dials() int        { return len(s.conns) + len(s.rconns) }
func (s *VerifServer) Closed(i int) bool { return s.conns[i].closed > 0 }
func (s *VerifServer) Pings(i int) int {
	n := 0
	for _, b := range s.conns[i].out {
		if b == 4 {
			n++
		}
	}
	return n
}
func (s *VerifServer) Cut(i int) { s.conns[i].cutAt = s.conns[i].rpos }
func (s *VerifServer) OpenConns() int {
	n := 0
	for _, c := range s.conns {
		if c.closed == 0 {
			n++
		}
	}
	for _, c := range s.rconns {
		if !c.closed.Load() {
			n++
		}
	}
	return n
}

// VerifConnIndex tells which dialed connection a client runs on (-1: none of them).
func (s *VerifServer) VerifConnIndex(c *Client) int {
	for i, vc := range s.conns {
		if c.conn == net.Conn(vc) {
			return i
		}
	}
	return -1
}
