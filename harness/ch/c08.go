//go:build verif

package ch

import (
	"context"

	"github.com/ClickHouse/ch-go/compress"
	"github.com/ClickHouse/ch-go/proto"
)

// VerifC08ClientIdle: read timeouts that expire between packets while a query is running are
// retried and change nothing: same callbacks, same values, nil error.
func VerifC08ClientIdle() {
	v := 54460
	x := verifU64("cell")
	p := proto.Progress{Rows: uint64(verifU8("rows") & 0x7f)}
	var script rb
	var bounds []int
	bounds = append(bounds, len(script.b))
	script.srvData(1, []rCol{{name: "a", typ: "UInt64", u64: []uint64{x}}}, v)
	bounds = append(bounds, len(script.b))
	script.srvProgress(p, v)
	bounds = append(bounds, len(script.b))
	script.srvEndOfStream()
	conn := vNewConn(script.b)
	mask := verifIntRange("idle-mask", 0, 7)
	for i, off := range bounds {
		if mask>>uint(i)&1 == 1 {
			conn.idleAt = append(conn.idleAt, off)
		}
	}
	// the transport may also deliver the stream one byte at a time
	c := vNewClient(conn, v, proto.CompressionDisabled, compress.None, nil)
	col := new(proto.ColUInt64)
	results, progresses := 0, 0
	var gotCell uint64
	var gotProgress proto.Progress
	q := Query{Body: "SELECT", QueryID: "q1", Result: proto.Results{{Name: "a", Data: col}},
		OnResult: func(ctx context.Context, b proto.Block) error {
			results++
			if col.Rows() == 1 {
				gotCell = (*col)[0]
			}
			return nil
		},
		OnProgress: func(ctx context.Context, pr proto.Progress) error { progresses++; gotProgress = pr; return nil },
	}
	err := c.Do(context.Background(), q)
	verifAssert(err == nil, "idle-gaps-do-not-fail-the-query")
	verifAssert(results == 1 && progresses == 1, "idle-gaps-same-callbacks")
	verifAssert(vAnd(gotCell == x, gotProgress == p), "idle-gaps-same-values")
	fired := 0
	for i := range bounds {
		if mask>>uint(i)&1 == 1 {
			fired++
		}
	}
	verifAssert(conn.idleFired == fired, "every-idle-gap-was-retried")
	verifAssert(!c.IsClosed(), "client-open")
}
