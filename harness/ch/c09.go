//go:build verif

package ch

import (
	"context"
	"io"

	"github.com/go-faster/errors"

	"github.com/ClickHouse/ch-go/compress"
	"github.com/ClickHouse/ch-go/proto"
)

type vOtherErr struct{}

func (vOtherErr) Error() string { return "callback failed" }

// VerifC09Stream: streamed INSERT through OnInput. The server must receive one block per
// round holding the contents as they were when the round began, then one terminator;
// EOF with leftover rows sends them; another error stops sending and fails the query.
func VerifC09Stream() {
	v := 54460
	framed := verifChoice("compression", 2) == 1
	kind := verifChoice("column", 4) // 0: ColUInt64 (zero-copy), 1: ColStr, 2: ColEnum, 3: LowCardinality(String) (both prepared from their values on every send)
	strCol, enumCol, lcCol := kind == 1, kind == 2, kind == 3
	const enumType = "Enum8('a'=1,'b'=2)"
	rounds := verifIntRange("rounds", 1, verifParam("maxrounds", 3))

	// live columns and a shadow model of their contents
	u := new(proto.ColUInt64)
	s := new(proto.ColStr)
	e := new(proto.ColEnum)
	lc := new(proto.ColStr).LowCardinality()
	var ml []string // LowCardinality model
	var mu []uint64
	var ms []string
	var me []byte // enum model: the raw value of each row
	enumName := [3]string{"", "a", "b"}
	appendRow := func() {
		if lcCol {
			x := enumName[1+verifChoice("lcell", 2)]
			lc.Append(x)
			ml = append(ml, x)
			return
		}
		if enumCol {
			x := byte(1 + verifChoice("ecell", 2))
			e.Append(enumName[x])
			me = append(me, x)
		} else if strCol {
			x := verifStr("scell", 1)
			s.Append(x)
			ms = append(ms, x)
		} else {
			x := verifU64("cell")
			u.Append(x)
			mu = append(mu, x)
		}
	}
	snapshot := func() rCol {
		if lcCol {
			return rCol{name: "a", typ: "LowCardinality(String)", lc: true, strs: append([]string(nil), ml...)}
		}
		if enumCol {
			return rCol{name: "a", typ: enumType, useRaw: true, n: len(me), raw: append([]byte(nil), me...)}
		}
		if strCol {
			return rCol{name: "a", typ: "String", isStr: true, strs: append([]string(nil), ms...)}
		}
		return rCol{name: "a", typ: "UInt64", u64: append([]uint64(nil), mu...)}
	}
	rowsNow := func() int {
		if lcCol {
			return len(ml)
		}
		if enumCol {
			return len(me)
		}
		if strCol {
			return len(ms)
		}
		return len(mu)
	}
	initial := verifIntRange("initial", 0, 2)
	for i := 0; i < initial; i++ {
		appendRow()
	}
	var blocks []rCol // what the server must receive, in order
	if initial > 0 {
		blocks = append(blocks, snapshot())
	}
	// the callback history is chosen up front; the expected stream is computed from the model
	type step struct{ action, result int }
	hist := make([]step, rounds)
	for i := range hist {
		hist[i] = step{verifChoice("action", 4), 0}
		if i == rounds-1 {
			hist[i].result = 1 + verifChoice("result", 3) // EOF, wrapped EOF, other error
		}
	}
	round := 0
	failed := false
	q := Query{Body: "INSERT INTO t VALUES", QueryID: "q1"}
	if lcCol {
		q.Input = proto.Input{{Name: "a", Data: lc}}
	} else if enumCol {
		q.Input = proto.Input{{Name: "a", Data: e}}
	} else if strCol {
		q.Input = proto.Input{{Name: "a", Data: s}}
	} else {
		q.Input = proto.Input{{Name: "a", Data: u}}
	}
	calls := 0
	q.OnInput = func(ctx context.Context) error {
		calls++
		if round >= len(hist) {
			verifFail("callback-called-after-end")
			return io.EOF
		}
		h := hist[round]
		round++
		switch h.action {
		case 0: // append a row to what is there
			appendRow()
		case 1: // reset, then one new row
			q.Input.Reset()
			mu, ms, me, ml = nil, nil, nil, nil
			appendRow()
		case 2: // overwrite row 0 in place (zero-copy columns alias this memory until flushed)
			if rowsNow() > 0 {
				if lcCol {
					x := enumName[1+verifChoice("lcell", 2)]
					lc.Values[0] = x
					ml[0] = x
				} else if enumCol {
					x := byte(1 + verifChoice("ecell", 2))
					e.Values[0] = enumName[x]
					me[0] = x
				} else if strCol {
					x := verifStr("scell", 1)
					copy(s.Buf[s.Pos[0].Start:s.Pos[0].End], x)
					ms[0] = x
				} else {
					x := verifU64("cell")
					(*u)[0] = x
					mu[0] = x
				}
			}
		case 3: // reset to nothing
			q.Input.Reset()
			mu, ms, me, ml = nil, nil, nil, nil
		}
		switch h.result {
		case 1:
			return io.EOF
		case 2:
			return errors.Wrap(io.EOF, "done")
		case 3:
			return vOtherErr{}
		}
		return nil
	}
	var script rb
	script.srvData(1, []rCol{{name: "a", typ: snapshot().typ, isStr: strCol}}, v)
	eos := len(script.b)
	script.srvEndOfStream()
	conn := vNewConn(script.b)
	if framed {
		var s2 rb
		s2.uv(1)
		s2.str("")
		var body rb
		body.block0([]rCol{{name: "a", typ: snapshot().typ, isStr: strCol}}, v)
		s2.frame(body.b)
		eos = len(s2.b)
		s2.srvEndOfStream()
		conn.script = s2.b
	}
	// the server answers EndOfStream only after it has seen the terminator; when the callback
	// fails it never does
	conn.gateFrom, conn.gateAfter = eos, 1<<30
	comp := proto.CompressionDisabled
	if framed {
		comp = proto.CompressionEnabled
	}
	c := vNewClient(conn, v, comp, compress.None, nil)

	// record what the connection has received at every callback entry: blocks already sent may
	// not change afterwards
	inner := q.OnInput
	var seenAtCall [][]byte
	q.OnInput = func(ctx context.Context) error {
		seenAtCall = append(seenAtCall, append([]byte(nil), conn.out...))
		// the model: contents when this round began were sent before the callback ran
		err := inner(ctx)
		if err == nil {
			blocks = append(blocks, snapshot())
		} else if errors.Is(err, io.EOF) {
			if rowsNow() > 0 {
				blocks = append(blocks, snapshot())
			}
			// the terminator follows: let the server answer
			conn.gateAfter = 0
		} else {
			failed = true
		}
		return err
	}
	err := c.Do(context.Background(), q)

	rq := rQuery{id: q.QueryID, body: q.Body, compression: framed, clientName: "cl", major: 1, minor: 2, patch: 3, rev: v, addr: "127.0.0.1:9"}
	var want rb
	want.query(rq, v)
	want.data("", nil, v, framed)
	for _, b := range blocks {
		want.data("", []rCol{b}, v, framed)
	}
	if failed {
		verifAssert(err != nil, "callback-error-fails-query")
		n := len(want.b)
		verifAssert(len(conn.out) >= n && vBytesEq(conn.out[:n], want.b), "sent-prefix-is-faithful")
		// nothing but (at most) one Cancel packet follows; in particular no Data packet
		rest := conn.out[n:]
		verifAssert(len(rest) <= 2, "no-block-after-failing-round")
		return
	}
	verifAssert(err == nil, "stream-ok")
	want.data("", nil, v, framed)
	verifAssert(vBytesEq(conn.out, want.b), "stream==model")
	// bytes delivered before a callback ran are a prefix of the final stream (never rewritten)
	for _, seen := range seenAtCall {
		verifAssert(len(seen) <= len(conn.out) && vBytesEq(seen, conn.out[:len(seen)]), "earlier-blocks-unchanged")
	}
	verifAssert(calls == rounds, "callback-rounds")
	verifObserveBytes("out", conn.out)
}
