//go:build verif

package ch

import (
	"context"
	"time"

	"github.com/go-faster/errors"

	"github.com/ClickHouse/ch-go/compress"
	"github.com/ClickHouse/ch-go/proto"
)

// VerifC10Cancel: the caller's context is cancelled at the k-th observation point of a query.
func VerifC10Cancel() {
	v := 54460
	verifSchedPolicy(vPolicies[verifChoice("policy", len(vPolicies))], 0)
	s := vMakeScenario(verifChoice("scenario", 2), v)
	conn := vNewConn(s.script)
	conn.maxIdle = 1
	conn.gates = s.gates
	// the server keeps silent after its first packet: the query can only end by cancellation
	server := verifChoice("server", 3)
	if server == 1 {
		conn.gateFrom, conn.gateAfter = 0, 1<<30
		conn.maxIdle = 1 << 20 // never hangs up: only cancellation can end the query
	}
	if server == 2 {
		// the server streams: a progress packet every 100 ms for 6 s (never a gap as long as the
		// read timeout), then the regular answer - cancellation must not wait for the stream to end
		var stream rb
		stream.srvProgress(proto.Progress{Rows: 1}, v)
		one := len(stream.b)
		for i := 1; i < 60; i++ {
			stream.srvProgress(proto.Progress{Rows: 1}, v)
		}
		gates := [][2]int{{s.gates[0][0], 0}}
		for _, g := range s.gates {
			gates = append(gates, [2]int{g[0], g[1] + len(stream.b)})
		}
		conn.script = append(append([]byte{}, stream.b...), s.script...)
		conn.gates = gates
		conn.pace, conn.paceEvery, conn.paceFrom, conn.paceStart = 100*time.Millisecond, one, 0, time.Now()
		if s.q.OnProgress == nil {
			s.q.OnProgress = func(ctx context.Context, p proto.Progress) error { return nil }
		}
	}
	c := vNewClient(conn, v, proto.CompressionDisabled, compress.None, nil)
	ctx := vNewCtx(verifIntRange("cancelgate", 0, verifParam("maxgate", 10)))
	switch verifChoice("deadline", verifParam("deadlinekinds", 4)) {
	case 1:
		// a caller deadline far beyond the read timeout must not delay the reaction to a cancel
		ctx.deadline, ctx.hasDL = time.Now().Add(time.Hour), true
	case 2:
		// the deadline itself ends the query: later than one read timeout ...
		ctx.deadline, ctx.hasDL, ctx.expires = time.Now().Add(2500*time.Millisecond), true, true
	case 3:
		// ... or sooner
		ctx.deadline, ctx.hasDL, ctx.expires = time.Now().Add(400*time.Millisecond), true, true
	}
	switch verifChoice("cancel-write", 3) {
	case 1:
		// the Cancel packet is best effort: when it cannot be written the connection is closed all the same
		conn.brokenOnce = ctx
	case 2:
		// ... and when the peer has stopped reading, the attempt is bounded in time
		conn.stalledOnce = ctx
	}
	err := c.Do(ctx, s.q)
	if !ctx.cancelled {
		verifNote("not-cancelled")
		return
	}
	if err == nil {
		// the cancellation was observed only after everything had completed
		verifNote("completed-before-cancel-observed")
		verifAssert(vBytesEq(conn.out, s.want), "completed-stream")
		return
	}
	verifNote("cancelled")
	if conn.failedWrites == 0 {
		verifAssert(errors.Is(err, ctx.err), "error-matches-context")
	} else {
		// two independent faults (the caller gave up, the connection broke): either may be reported
		verifNote("cancelled-on-a-broken-connection")
	}
	if ctx.expires {
		verifNote("deadline-exceeded")
	}
	verifAssert(conn.closed > 0, "connection-closed")
	verifAssert(c.IsClosed(), "client-closed")
	// what was written: a prefix of the well-formed stream, then at most one Cancel packet
	n := len(conn.out)
	if n > len(s.want) {
		n = len(s.want)
	}
	k := 0
	for k < n && conn.out[k] == s.want[k] {
		k++
	}
	rest := conn.out[k:]
	verifAssert(len(rest) <= 1, "at-most-one-cancel-byte-after-the-query-stream")
	if len(rest) == 1 {
		verifAssert(rest[0] == 3, "cancel-packet-is-the-single-byte-3")
	}
	// the prefix ends at a flush boundary
	sum, boundary := 0, k == 0
	for _, l := range conn.writeLens {
		sum += l
		if sum == k {
			boundary = true
		}
	}
	verifAssert(boundary, "prefix-ends-at-a-flush-boundary")
	verifAssert(verifLiveGoroutines() == 0, "no-goroutine-outlives-the-call")
	// promptness on the harness' clock: a blocked read returns at its deadline, so the call must
	// be back within the read timeout (1 s) plus a grace period after the cancellation
	verifAssert(time.Since(ctx.cancelledAt) <= 3*time.Second, "returns-promptly-after-cancel")
}

// VerifC10Handshake: cancellation while the hello is being exchanged.
func VerifC10Handshake() {
	var script rb
	refServerHelloFor(&script, "srv", 1, 2, 54460, "tz", "dn", 3, 54460)
	conn := vNewConn(script.b)
	conn.maxIdle = 1
	if verifChoice("server", 2) == 1 {
		conn.gateFrom, conn.gateAfter = 0, 1<<30 // silent server
		conn.maxIdle = 1 << 20
	}
	ctx := vNewCtx(verifIntRange("cancelgate", 0, verifParam("maxgate", 8)))
	c, err := Connect(ctx, conn, Options{ProtocolVersion: 54460})
	if !ctx.cancelled {
		verifNote("not-cancelled")
		return
	}
	if err == nil {
		verifNote("completed-before-cancel-observed")
		verifAssert(c != nil, "client-returned")
		return
	}
	verifNote("cancelled")
	verifAssert(c == nil, "no-client")
	verifAssert(errors.Is(err, context.Canceled), "handshake-error-matches-context")
	verifAssert(conn.closed > 0, "handshake-connection-closed")
	verifAssert(verifLiveGoroutines() == 0, "handshake-no-goroutine-left")
}
