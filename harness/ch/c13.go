//go:build verif

package ch

import (
	"context"
	"net"
	"time"

	"github.com/go-faster/errors"
)

type vDialer struct {
	conn  *vConn
	nc    net.Conn // when set, what the dial yields instead of conn
	dials int
}

func (d *vDialer) DialContext(ctx context.Context, network, address string) (net.Conn, error) {
	d.dials++
	if d.nc != nil {
		return d.nc, nil
	}
	return d.conn, nil
}

// vTimedConn delays the server's answer: the script becomes readable only at `arrival`;
// a Read whose deadline expires earlier fails with a timeout.
type vTimedConn struct {
	*vConn
	arrival time.Time
	delayed bool
}

func (c *vTimedConn) Read(p []byte) (int, error) {
	if c.delayed {
		if n := len(c.readDL); n > 0 && !c.readDL[n-1].IsZero() && c.readDL[n-1].Before(c.arrival) {
			// the deadline fires before the hello arrives
			return 0, &net.OpError{Op: "read", Net: "tcp", Err: vTimeoutErr{}}
		}
		c.delayed = false
	}
	return c.vConn.Read(p)
}

// refServerHelloFor writes the hello of a server of revision sv to a client of revision cv:
// a field is on the wire iff both sides know it.
func refServerHelloFor(r *rb, name string, major, minor, sv int, tz, display string, patch, cv int) {
	r.uv(0)
	r.str(name)
	r.vint(major)
	r.vint(minor)
	r.vint(sv)
	both := func(th int) bool { return cv >= th && sv >= th }
	if both(rTimezone) {
		r.str(tz)
	}
	if both(rDisplayName) {
		r.str(display)
	}
	if both(rVersionPatch) {
		r.vint(patch)
	}
}

// VerifC13Handshake: every pair (client revision, server revision >= 54401).
func VerifC13Handshake() { vHandshake(false) }

// VerifC13OldServer: servers older than 54401, which cannot send the hello fields a newer
// client expects from its own revision.
func VerifC13OldServer() { vHandshake(true) }

func vHandshake(old bool) {
	cv := verifInt("client-revision")
	sv := verifInt("server-revision")
	verifAssume(vAnd(cv > 0, cv < 1<<20))
	verifAssume(vAnd(sv > 0, sv < 1<<20))
	if old {
		verifAssume(sv < rVersionPatch)
	} else {
		verifAssume(sv >= rVersionPatch)
	}
	sl := verifIntRange("strlen", 0, 1)
	name, tz, display := "s"+verifStr("name", sl), verifStr("tz", sl), verifStr("display", sl)
	major, minor, patch := int(verifU8("major")&0x7f), int(verifU8("minor")&0x7f), int(verifU8("patch")&0x7f)
	quota := verifStr("quota", sl)
	var script rb
	refServerHelloFor(&script, name, major, minor, sv, tz, display, patch, cv)
	helloLen := len(script.b)
	script.uv(4) // Pong for the Ping that follows
	script.srvEndOfStream()
	conn := vNewConn(script.b)
	opt := Options{ProtocolVersion: cv, Database: "d" + verifStr("db", sl), User: "u" + verifStr("user", sl), Password: verifStr("pw", sl), QuotaKey: quota}
	c, err := Connect(context.Background(), conn, opt)
	verifAssert(err == nil, "handshake-ok")
	if err != nil {
		return
	}
	min := cv
	if sv < cv {
		min = sv
	}
	verifAssert(c.protocolVersion == min, "negotiated==min(client,server)")
	si := c.ServerInfo()
	both := func(th int) bool { return cv >= th && sv >= th }
	ok := vAnd(vStrEq(si.Name, name), vAnd(si.Major == major, vAnd(si.Minor == minor, si.Revision == sv)))
	if both(rTimezone) {
		ok = vAnd(ok, vStrEq(si.Timezone, tz))
	}
	if both(rDisplayName) {
		ok = vAnd(ok, vStrEq(si.DisplayName, display))
	}
	if both(rVersionPatch) {
		ok = vAnd(ok, si.Patch == patch)
	}
	verifAssert(ok, "server-identity-as-sent")
	// client hello, then the addendum exactly when the negotiated revision has it
	var want rb
	want.u8(0)
	want.str(c.info.Name)
	want.vint(c.info.Major)
	want.vint(c.info.Minor)
	want.vint(cv)
	want.str(opt.Database)
	want.str(opt.User)
	want.str(opt.Password)
	if min >= rAddendum {
		want.str(quota)
	}
	verifAssert(vBytesEq(conn.out, want.b), "hello-and-addendum")
	_ = helloLen // exact consumption is observed through the Ping that follows (the reader buffers ahead)
	// later packets speak the negotiated revision
	n0 := len(conn.out)
	verifAssert(c.Ping(context.Background()) == nil, "ping-ok")
	verifAssert(len(conn.out) == n0+1 && conn.out[n0] == 4, "ping-packet")
	n1 := len(conn.out)
	q := Query{Body: "SELECT 1", QueryID: "q1", QuotaKey: quota}
	verifAssert(c.Do(context.Background(), q) == nil, "query-ok")
	rq := rQuery{id: "q1", body: "SELECT 1", quotaKey: quota, clientName: c.version.Name, major: c.version.Major, minor: c.version.Minor, patch: c.version.Patch, rev: min, addr: "127.0.0.1:9"}
	var wq rb
	wq.query(rq, min)
	wq.data("", nil, min, false)
	verifAssert(vBytesEq(conn.out[n1:], wq.b), "query-at-negotiated-revision")
	verifObserveBytes("out", conn.out)
}

// VerifC13Failure: exception, wrong packet, truncated hello, silence: an error, no client,
// and a connection the library dialed itself is closed.
func VerifC13Failure() {
	cv := 54460
	var script rb
	cutAt := -1
	kind := verifChoice("response", 4)
	code := verifI32("code")
	switch kind {
	case 0: // exception
		script.uv(2)
		script.srvException(code, "n", "m", "s", false)
	case 1: // well-formed but wrong packet
		script.uv(uint64(verifIntRange("wrong", 1, 5)))
		script.b = append(script.b, verifBytes("junk", 2)...)
	case 2: // hello cut short
		refServerHelloFor(&script, "srv", 1, 2, 54460, "tz", "dn", 3, cv)
		cutAt = verifIntRange("cut", 0, len(script.b)-1)
	case 3: // silence
	}
	conn := vNewConn(script.b)
	conn.cutAt = cutAt
	d := &vDialer{conn: conn}
	c, err := Dial(context.Background(), Options{ProtocolVersion: cv, Dialer: d})
	verifAssert(err != nil, "handshake-fails")
	verifAssert(c == nil, "no-client-on-failure")
	if kind == 0 {
		var e *Exception
		verifAssert(errors.As(err, &e), "exception-carried")
		if e != nil {
			verifAssert(int32(e.Code) == code, "exception-code")
		}
	}
	verifAssert(d.dials == 1, "dialed-once")
	verifAssert(conn.closed > 0, "dialed-connection-closed")
}

// VerifC13Delay: a hello that arrives before the handshake timeout is accepted.
func VerifC13Delay() {
	cv := 54460
	var script rb
	refServerHelloFor(&script, "srv", 1, 2, 54460, "tz", "dn", 3, cv)
	base := vNewConn(script.b)
	delays := [3]time.Duration{time.Second, 10 * time.Second, 100 * time.Second}
	delay := delays[verifChoice("delay", 3)]
	conn := &vTimedConn{vConn: base, arrival: time.Now().Add(delay), delayed: true}
	opt := Options{ProtocolVersion: cv, HandshakeTimeout: 200 * time.Second}
	if verifChoice("readtimeout", 2) == 1 {
		opt.ReadTimeout = 5 * time.Second
	}
	var c *Client
	var err error
	if verifChoice("via", 2) == 1 {
		// the library dials itself: the time allowed for the dial is not the time allowed for the hello
		opt.Dialer = &vDialer{nc: conn}
		c, err = Dial(context.Background(), opt)
	} else {
		c, err = Connect(context.Background(), conn, opt)
	}
	verifAssert(err == nil && c != nil, "hello-before-handshake-timeout-accepted")
}
