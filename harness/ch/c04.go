//go:build verif

package ch

import (
	"context"

	"github.com/go-faster/errors"

	"github.com/ClickHouse/ch-go/compress"
	"github.com/ClickHouse/ch-go/proto"
)

var vPolicies = [5]string{"first", "last", "rr", "sticky-first", "sticky-last"}

// vScenario prepares a query, the server's full response script and the reference of what a
// complete client stream looks like.
type vScenario struct {
	q      Query
	script []byte
	want   []byte // complete, well-formed client stream
	col    *proto.ColUInt64
	gates  [][2]int // the server answers only what it has a reason to answer
	conn   *vConn   // set once the connection exists (the yielding column looks at it)
}

func vMakeScenario(kind, v int) *vScenario {
	s := &vScenario{}
	rq := rQuery{id: "q1", clientName: "cl", major: 1, minor: 2, patch: 3, rev: v, addr: "127.0.0.1:9"}
	var script, want rb
	switch kind {
	case 0: // select: one data block, progress, end of stream
		s.col = new(proto.ColUInt64)
		s.q = Query{Body: "SELECT", QueryID: "q1", Result: proto.Results{{Name: "a", Data: s.col}},
			OnResult: func(ctx context.Context, b proto.Block) error { return nil }}
		rq.body = "SELECT"
		want.query(rq, v)
		want.data("", nil, v, false)
		script.srvData(1, []rCol{{name: "a", typ: "UInt64", u64: []uint64{verifU64("cell")}}}, v)
		script.srvProgress(proto.Progress{Rows: 1}, v)
		script.srvEndOfStream()
		s.gates = [][2]int{{len(want.b), 0}} // nothing before the whole query arrived
	case 1: // insert with schema exchange, one block
		in := new(proto.ColUInt64)
		x := verifU64("cell")
		in.Append(x)
		// the caller's column type may itself be a scheduling point while a block is being chained
		// (a column that fetches its data lazily): whatever arrives meanwhile, nothing of a failed
		// query may stay queued in the client
		s.col = in
		s.q = Query{Body: "INSERT", QueryID: "q1", Input: proto.Input{{Name: "a", Data: vYieldCol{ColUInt64: in, pause: func() {
			// long enough for the other goroutines to take in whatever the server has sent meanwhile
			for i := 0; i < 50 && s.conn != nil && s.conn.rpos < len(s.conn.script); i++ {
				verifYield()
			}
			verifSettle()
		}}}}}
		rq.body = "INSERT"
		want.query(rq, v)
		want.data("", nil, v, false)
		queryPart := len(want.b)
		want.data("", []rCol{{name: "a", typ: "UInt64", u64: []uint64{x}}}, v, false)
		want.data("", nil, v, false)
		script.srvData(1, []rCol{{name: "a", typ: "UInt64"}}, v)
		eos := len(script.b)
		script.srvEndOfStream()
		s.gates = [][2]int{{queryPart, 0}, {len(want.b), eos}} // schema after the query, end of stream after the terminator
	}
	s.script, s.want = script.b, want.b
	return s
}

// vYieldCol is a user-defined input column whose WriteColumn lets other goroutines run.
type vYieldCol struct {
	*proto.ColUInt64
	pause func() // what the column does while it "fetches" its data
}

func (c vYieldCol) WriteColumn(w *proto.Writer) {
	if c.pause != nil {
		c.pause()
	}
	c.ColUInt64.WriteColumn(w)
}

// vAfterFailure asserts the C04 post-condition on a client whose query just failed.
func vAfterFailure(c *Client, conn *vConn) {
	if c.IsClosed() {
		verifNote("closed")
		reads, writes, closes := conn.reads, len(conn.writeLens), conn.closed
		verifAssert(errors.Is(c.Ping(context.Background()), ErrClosed), "closed-client-rejects-ping")
		verifAssert(errors.Is(c.Do(context.Background(), Query{Body: "x", QueryID: "q2"}), ErrClosed), "closed-client-rejects-do")
		verifAssert(conn.reads == reads && len(conn.writeLens) == writes && conn.closed == closes, "closed-client-does-not-touch-connection")
		return
	}
	verifNote("open")
	// usable: the next request starts with its own first byte and nothing of the failed query is sent later
	n0 := len(conn.out)
	// the server answers Pong - after whatever it had already sent and the client has not read;
	// a stream that ended stays ended and a connection whose writes fail stays broken
	if conn.cutAt < 0 {
		conn.script = append(conn.script[:len(conn.script):len(conn.script)], 4)
	}
	conn.gateAfter, conn.idles, conn.gates = 0, 0, nil
	perr := c.Ping(context.Background())
	verifAssert(len(conn.out) > n0, "ping-writes")
	if len(conn.out) > n0 {
		verifAssert(conn.out[n0] == 4, "next-request-starts-with-its-own-first-byte")
		verifAssert(len(conn.out) == n0+1, "nothing-of-the-failed-query-is-sent-later")
	}
	verifAssert(perr == nil, "open-client-is-usable")
}

// VerifC04Faults: every fault point of the server stream and of the client's writes, a failing
// callback, an exception before anything else, unknown and unexpected packets - under three
// non-preemptive scheduling policies.
func VerifC04Faults() {
	// the negotiated revision: the current one, before the elapsed-time field of Progress,
	// before parameters/parallel replicas, before the custom-serialization byte of blocks
	v := [4]int{54460, 54459, 54453, 54445}[verifChoice("revision", verifParam("revisions", 1))]
	verifSchedPolicy(vPolicies[verifChoice("policy", len(vPolicies))], 0)
	s := vMakeScenario(verifChoice("scenario", 2), v)
	conn := vNewConn(s.script)
	conn.maxIdle = 1
	conn.gates = s.gates
	s.conn = conn
	conn.closeErr = verifChoice("close-reports-error", 2) == 1 // closed is closed, whatever Close returns
	c := vNewClient(conn, v, proto.CompressionDisabled, compress.None, nil)
	switch verifChoice("fault", 6) {
	case 0: // server stream cut after byte k
		conn.cutAt = verifIntRange("cut", 0, len(s.script)-1)
	case 1: // client write fails after byte k
		conn.failAfter = verifIntRange("wfail", 0, len(s.want)-1)
		if verifChoice("server-stays-silent", 2) == 1 {
			// the server has nothing to answer and never hangs up: only the client's own failure can end the call
			conn.maxIdle = 1 << 20
		}
	case 2: // a user callback fails
		if verifChoice("server-stays-silent", 2) == 1 {
			conn.maxIdle = 1 << 20
		}
		if s.q.OnResult != nil {
			s.q.OnResult = func(ctx context.Context, b proto.Block) error { return vCallbackErr{} }
		} else {
			s.q.OnInput = func(ctx context.Context) error { return vCallbackErr{} }
		}
	case 3: // the server fails the query at once: exception is the first thing it sends
		var e rb
		e.uv(2)
		e.srvException(verifI32("code"), "n", "m", "s", false)
		conn.script, conn.gates = e.b, nil
		// ... and possibly not even the whole of it
		conn.cutAt = verifIntRange("excut", -1, len(e.b)-1)
	case 4: // unknown packet code
		var e rb
		e.uv(uint64(verifIntRange("badcode", 15, 16)))
		conn.script, conn.gates = e.b, nil
	case 5: // well-formed but unexpected packet (Hello / Pong inside a query)
		var e rb
		e.uv(uint64([2]int{0, 4}[verifChoice("unexpected", 2)]))
		e.b = append(e.b, 0, 0, 0)
		conn.script, conn.gates = e.b, nil
	}
	err := c.Do(context.Background(), s.q)
	if err == nil {
		verifNote("query-succeeded")
		return
	}
	verifNote("query-failed")
	vAfterFailure(c, conn)
}
