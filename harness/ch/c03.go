//go:build verif

package ch

import (
	"context"

	"github.com/go-faster/errors"

	"github.com/ClickHouse/ch-go/compress"
	"github.com/ClickHouse/ch-go/proto"
)

type vEvent struct {
	kind  int // 1 result, 2 progress, 3 profile, 4 logs, 5 profile events
	rows  int
	cell  uint64
	prog  proto.Progress
	prof  proto.Profile
	text  string
	value int64
}

func vEventEq(a, b vEvent) bool {
	if a.kind != b.kind {
		return false
	}
	return vAnd(a.rows == b.rows, vAnd(a.cell == b.cell, vAnd(a.prog == b.prog, vAnd(a.prof == b.prof, vAnd(vStrEq(a.text, b.text), a.value == b.value)))))
}

type vCallbackErr struct{}

func (vCallbackErr) Error() string { return "callback refused" }

const (
	pkData = iota
	pkTotals
	pkProgress
	pkProfile
	pkTableColumns
	pkLog
	pkProfileEvents
	pkException
	pkEndOfStream
	pkKinds
)

// VerifC03Script: an arbitrary script of server packets; the callbacks observe exactly the
// projection of the script, in order; Do returns nil iff the script ends with EndOfStream and
// no callback failed; an exception is recoverable with its whole chain.
func VerifC03Script() {
	// result blocks carry the temp-table name from 50264 on
	var v int
	if verifParam("symversion", 0) == 1 {
		v = verifInt("version")
		verifAssume(vAnd(v >= rTempTables, v < 1<<31))
	} else {
		v = [4]int{54460, 54453, 54419, 51902}[verifChoice("version", 4)]
	}
	n := verifIntRange("packets", 1, verifParam("maxpackets", 2))
	withOnResult := verifChoice("onresult", 2) == 1
	// telemetry callbacks: the batch form, the deprecated per-item form, or both (batch first)
	cbStyle := verifChoice("telemetry-callbacks", verifParam("cbstyles", 3))
	telemetry := func(e vEvent) []vEvent {
		if cbStyle == 2 {
			return []vEvent{e, e}
		}
		return []vEvent{e}
	}
	failAt := verifIntRange("failing-callback", -1, verifParam("maxfail", 0)) // index of the callback invocation that fails

	// connection compression: result and totals blocks then arrive as checksummed frames, telemetry
	// blocks (logs, profile events) never do
	compressed := verifParam("compressed", 0) == 1
	var script rb
	srvBlock := func(code byte, cols []rCol) {
		// the reference grammar frames exactly Data, Totals and Extremes on a compressed connection; the
		// client must agree on which packets it reads through the decompressor (asserted on the real
		// predicate, so that a disagreement is reported independently of the uninterpreted checksum's value)
		verifAssert(proto.ServerCode(code).Compressible(), "framed-packet-read-through-decompressor")
		if !compressed {
			script.srvData(code, cols, v)
			return
		}
		script.uv(uint64(code))
		script.str("")
		var body rb
		body.block0(cols, v)
		script.frame(body.b)
	}
	var want []vEvent
	ended := false     // EndOfStream sent
	exception := false // exception sent
	var codes []int32
	var exName, exMsg, exStack string
	for i := 0; i < n && !ended && !exception; i++ {
		switch verifChoice("packet", pkKinds) {
		case pkData, pkTotals:
			code := byte(1)
			if verifChoice("totals", 2) == 1 {
				code = 7
			}
			rows := verifIntRange("rows", -1, 1)
			if rows < 0 {
				// the empty end marker (no columns, no rows): never delivered to the callback
				srvBlock(code, nil)
				continue
			}
			col := rCol{name: "a", typ: "UInt64"}
			ev := vEvent{kind: 1, rows: rows}
			for r := 0; r < rows; r++ {
				x := verifU64("cell")
				col.u64 = append(col.u64, x)
				ev.cell = x
			}
			srvBlock(code, []rCol{col})
			want = append(want, ev)
		case pkProgress:
			p := proto.Progress{Rows: uint64(verifU8("p.rows") & 0x7f), Bytes: uint64(verifU8("p.bytes") & 0x7f), TotalRows: uint64(verifU8("p.total") & 0x7f)}
			if v >= rClientInfo {
				p.WroteRows, p.WroteBytes = uint64(verifU8("p.wr")&0x7f), uint64(verifU8("p.wb")&0x7f)
			}
			if v >= rElapsedNs {
				p.ElapsedNs = uint64(verifU8("p.ns") & 0x7f)
			}
			script.srvProgress(p, v)
			want = append(want, vEvent{kind: 2, prog: p})
		case pkProfile:
			p := proto.Profile{Rows: uint64(verifU8("f.rows") & 0x7f), Blocks: uint64(verifU8("f.blocks") & 0x7f), Bytes: uint64(verifU8("f.bytes") & 0x7f),
				AppliedLimit: verifBool("f.al"), RowsBeforeLimit: uint64(verifU8("f.rbl") & 0x7f), CalculatedRowsBeforeLimit: verifBool("f.calc")}
			script.srvProfile(p)
			want = append(want, vEvent{kind: 3, prof: p})
		case pkTableColumns:
			script.uv(11)
			script.str(verifStr("tc1", 1))
			script.str(verifStr("tc2", 1))
		case pkLog:
			verifAssert(vNot(vOr(proto.ServerCodeLog.Compressible(), proto.ServerProfileEvents.Compressible())), "telemetry-packets-read-unframed")
			text := verifStr("log.text", 1)
			script.uv(10)
			script.str("")
			script.block0([]rCol{
				{name: "event_time", typ: "DateTime", useRaw: true, n: 1, raw: verifBytes("log.time", 4)},
				{name: "event_time_microseconds", typ: "UInt32", useRaw: true, n: 1, raw: verifBytes("log.us", 4)},
				{name: "host_name", typ: "String", isStr: true, strs: []string{"h"}},
				{name: "query_id", typ: "String", isStr: true, strs: []string{"q"}},
				{name: "thread_id", typ: "UInt64", u64: []uint64{verifU64("log.tid")}},
				{name: "priority", typ: "Int8", useRaw: true, n: 1, raw: verifBytes("log.prio", 1)},
				{name: "source", typ: "String", isStr: true, strs: []string{"s"}},
				{name: "text", typ: "String", isStr: true, strs: []string{text}},
			}, v)
			want = append(want, telemetry(vEvent{kind: 4, rows: 1, text: text})...)
		case pkProfileEvents:
			val := verifU64("pe.value")
			script.uv(14)
			script.str("")
			script.block0([]rCol{
				{name: "host_name", typ: "String", isStr: true, strs: []string{"h"}},
				{name: "current_time", typ: "DateTime", useRaw: true, n: 1, raw: verifBytes("pe.time", 4)},
				{name: "thread_id", typ: "UInt64", u64: []uint64{verifU64("pe.tid")}},
				{name: "type", typ: "Int8", useRaw: true, n: 1, raw: []byte{1}},
				{name: "name", typ: "String", isStr: true, strs: []string{"n"}},
				{name: "value", typ: "UInt64", u64: []uint64{val}},
			}, v)
			want = append(want, telemetry(vEvent{kind: 5, rows: 1, value: int64(val)})...)
		case pkException:
			depth := verifIntRange("chain", 1, verifParam("maxchain", 3))
			script.uv(2)
			exName, exMsg, exStack = verifStr("ex.name", 1), verifStr("ex.msg", 1), verifStr("ex.stack", 1)
			for d := 0; d < depth; d++ {
				code := verifI32("ex.code")
				codes = append(codes, code)
				if d == 0 {
					script.srvException(code, exName, exMsg, exStack, depth > 1)
				} else {
					script.srvException(code, "n2", "m2", "s2", d+1 < depth)
				}
			}
			exception = true
		case pkEndOfStream:
			script.srvEndOfStream()
			ended = true
		}
	}
	conn := vNewConn(script.b)
	compression := proto.CompressionDisabled
	if compressed {
		compression = proto.CompressionEnabled
	}
	c := vNewClient(conn, v, compression, compress.None, nil)
	var got []vEvent
	calls := 0
	failed := false
	fail := func() error {
		k := calls
		calls++
		if k == failAt {
			failed = true
			return vCallbackErr{}
		}
		return nil
	}
	col := new(proto.ColUInt64)
	q := Query{Body: "SELECT", QueryID: "q1", Result: proto.Results{{Name: "a", Data: col}}}
	if withOnResult {
		q.OnResult = func(ctx context.Context, b proto.Block) error {
			ev := vEvent{kind: 1, rows: b.Rows}
			if col.Rows() != b.Rows {
				verifFail("bound-column-rows-at-callback")
			}
			if b.Rows > 0 {
				ev.cell = (*col)[0]
			}
			got = append(got, ev)
			return fail()
		}
	}
	q.OnProgress = func(ctx context.Context, p proto.Progress) error {
		got = append(got, vEvent{kind: 2, prog: p})
		return fail()
	}
	q.OnProfile = func(ctx context.Context, p proto.Profile) error {
		got = append(got, vEvent{kind: 3, prof: p})
		return fail()
	}
	if cbStyle != 1 {
		q.OnLogs = func(ctx context.Context, l []Log) error {
			ev := vEvent{kind: 4, rows: len(l)}
			if len(l) > 0 {
				ev.text = l[0].Text
			}
			got = append(got, ev)
			return fail()
		}
		q.OnProfileEvents = func(ctx context.Context, e []ProfileEvent) error {
			ev := vEvent{kind: 5, rows: len(e)}
			if len(e) > 0 {
				ev.value = e[0].Value
			}
			got = append(got, ev)
			return fail()
		}
	}
	if cbStyle != 0 {
		q.OnLog = func(ctx context.Context, l Log) error {
			got = append(got, vEvent{kind: 4, rows: 1, text: l.Text})
			return fail()
		}
		q.OnProfileEvent = func(ctx context.Context, e ProfileEvent) error {
			got = append(got, vEvent{kind: 5, rows: 1, value: e.Value})
			return fail()
		}
	}
	err := c.Do(context.Background(), q)

	// expected trace: the projection of the script, up to and including the failing callback
	if !withOnResult {
		// without OnResult data blocks are not traced; a block after a non-empty one is an error
		var w2 []vEvent
		seenRows := false
		for _, e := range want {
			if e.kind == 1 {
				if seenRows {
					failed = true
					break
				}
				if e.rows > 0 {
					seenRows = true
				}
				continue
			}
			w2 = append(w2, e)
		}
		want = w2
	}
	if failAt >= 0 && failAt < len(want) {
		want = want[:failAt+1]
	}
	verifAssert(len(got) == len(want), "callback-count")
	eq := true
	for i := 0; i < len(got) && i < len(want); i++ {
		eq = vAnd(eq, vEventEq(got[i], want[i]))
	}
	verifAssert(eq, "callback-trace==script")
	ok := ended && !failed
	verifAssert((err == nil) == ok, "nil-iff-endofstream-and-no-failure")
	if exception && !failed {
		var e *Exception
		verifAssert(errors.As(err, &e), "exception-recoverable")
		if e != nil {
			verifAssert(vAnd(int32(e.Code) == codes[0], vAnd(vStrEq(e.Name, exName), vAnd(vStrEq(e.Message, exMsg), vStrEq(e.Stack, exStack)))), "exception-fields")
			verifAssert(len(e.Next) == len(codes)-1, "exception-chain-length")
			for _, code := range codes {
				verifAssert(errors.Is(err, proto.Error(code)), "exception-code-matchable")
			}
			verifAssert(IsErr(err, proto.Error(codes[0])), "iserr-top-code")
		}
	}
	verifObserveU64("callbacks", uint64(len(got)))
}
