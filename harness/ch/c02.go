//go:build verif

package ch

import (
	"context"
	"go.opentelemetry.io/otel/trace"

	"github.com/ClickHouse/ch-go/compress"
	"github.com/ClickHouse/ch-go/proto"
)

// VerifC02Query: everything Do writes for a query without input is exactly one Query packet
// with the caller's fields (connection settings before query settings), the external data
// block if any, and one empty terminator block - at every revision and with/without framing.
func VerifC02Query() {
	v := verifInt("version")
	verifAssume(vAnd(v >= 0, v < 1<<31))
	framed := verifChoice("compression", 2) == 1
	sl := verifIntRange("strlen", 0, verifParam("maxstr", 1))
	var cs []Setting
	if verifChoice("clientsetting", 2) == 1 {
		cs = append(cs, Setting{Key: "c" + verifStr("ck", sl), Value: verifStr("cv", sl), Important: verifBool("ci")})
	}
	q := Query{
		Body: verifStr("body", sl), QueryID: "q" + verifStr("id", sl), QuotaKey: verifStr("quota", sl),
		Secret: verifStr("secret", sl), InitialUser: verifStr("iuser", sl),
	}
	if verifChoice("querysetting", 2) == 1 {
		q.Settings = append(q.Settings, Setting{Key: "q" + verifStr("qk", sl), Value: verifStr("qv", sl), Important: verifBool("qi")})
	}
	if verifChoice("param", 2) == 1 {
		q.Parameters = append(q.Parameters, proto.Parameter{Key: "p" + verifStr("pk", sl), Value: verifStr("pv", sl)})
	}
	var ext []rCol
	if verifChoice("external", 2) == 1 {
		col := new(proto.ColUInt64)
		x := verifU64("ext")
		col.Append(x)
		q.ExternalData = []proto.InputColumn{{Name: "e", Data: col}}
		q.ExternalTable = verifStr("etable", verifIntRange("etlen", 0, 1))
		ext = []rCol{{name: "e", typ: "UInt64", u64: []uint64{x}}}
	}
	var script rb
	script.srvEndOfStream()
	conn := vNewConn(script.b)
	comp, method := proto.CompressionDisabled, compress.None
	if framed {
		comp = proto.CompressionEnabled
	}
	c := vNewClient(conn, v, comp, method, cs)
	ctx := context.Background()
	var span *[24]byte
	var spanFlags byte
	if verifChoice("span", 2) == 1 {
		// the caller's OpenTelemetry span context travels in the client info
		var ids [24]byte
		copy(ids[:], verifBytes("span.ids", 24))
		verifAssume(vAnd(ids[0] != 0, ids[16] != 0)) // valid: neither id is all zero
		spanFlags = verifU8("span.flags")
		var cfg trace.SpanContextConfig
		copy(cfg.TraceID[:], ids[:16])
		copy(cfg.SpanID[:], ids[16:])
		cfg.TraceFlags = trace.TraceFlags(spanFlags)
		ctx = trace.ContextWithSpanContext(ctx, trace.NewSpanContext(cfg))
		span = &ids
	}
	err := c.Do(ctx, q)
	if len(q.Parameters) > 0 && v < rParameters {
		verifAssert(err != nil, "parameters-refused-before-54459")
		verifAssert(len(conn.out) == 0, "nothing-written-when-refused")
		return
	}
	verifAssert(err == nil, "do-ok")
	// --- reference stream
	rq := rQuery{span: span, spanFlags: spanFlags, id: q.QueryID, body: q.Body, secret: q.Secret, quotaKey: q.QuotaKey, initialUser: q.InitialUser, compression: framed,
		clientName: "cl", major: 1, minor: 2, patch: 3, rev: v, addr: "127.0.0.1:9"}
	for _, s := range cs {
		rq.settings = append(rq.settings, rSetting{key: s.Key, value: s.Value, important: s.Important})
	}
	for _, s := range q.Settings {
		rq.settings = append(rq.settings, rSetting{key: s.Key, value: s.Value, important: s.Important})
	}
	for _, p := range q.Parameters {
		rq.params = append(rq.params, rSetting{key: p.Key, value: p.Value})
	}
	var want rb
	want.query(rq, v)
	if ext != nil {
		table := q.ExternalTable
		if table == "" {
			table = "_data"
		}
		want.data(table, ext, v, framed)
	}
	want.data("", nil, v, framed)
	verifAssert(vBytesEq(conn.out, want.b), "stream==reference")
	verifAssert(!c.IsClosed(), "client-open-after-success")
	verifObserveBytes("out", conn.out)
}

// vInput builds 0..2 input columns (UInt64, String) with 0..maxrows rows of symbolic cells.
func vInput(ncols, rows, sl int) (proto.Input, []rCol) {
	var in proto.Input
	var ref []rCol
	if ncols >= 1 {
		col := new(proto.ColUInt64)
		rc := rCol{name: "a", typ: "UInt64"}
		for i := 0; i < rows; i++ {
			x := verifU64("cell")
			col.Append(x)
			rc.u64 = append(rc.u64, x)
		}
		in = append(in, proto.InputColumn{Name: "a", Data: col})
		ref = append(ref, rc)
	}
	if ncols >= 2 {
		col := new(proto.ColStr)
		rc := rCol{name: "b", typ: "String", isStr: true}
		for i := 0; i < rows; i++ {
			s := verifStr("scell", sl)
			col.Append(s)
			rc.strs = append(rc.strs, s)
		}
		in = append(in, proto.InputColumn{Name: "b", Data: col})
		ref = append(ref, rc)
	}
	if ncols >= 3 {
		// a column with a serialization-state prefix (<=1 row here): the prefix is written iff the block has rows
		col := new(proto.ColStr).LowCardinality()
		rc := rCol{name: "c", typ: "LowCardinality(String)", lc: true}
		for i := 0; i < rows; i++ {
			s := verifStr("lcell", sl)
			col.Append(s)
			rc.strs = append(rc.strs, s)
		}
		in = append(in, proto.InputColumn{Name: "c", Data: col})
		ref = append(ref, rc)
	}
	return in, ref
}

// vHeaderCols is the zero-row schema block the server answers an INSERT with.
func vHeaderCols(ref []rCol) []rCol {
	var h []rCol
	for _, c := range ref {
		h = append(h, rCol{name: c.name, typ: c.typ, isStr: c.isStr, lc: c.lc})
	}
	return h
}

// VerifC02Insert: query, empty external-data terminator, the input block, one empty terminator.
func VerifC02Insert() {
	v := verifInt("version")
	verifAssume(vAnd(v >= 0, v < 1<<31))
	framed := verifChoice("compression", 2) == 1
	ncols := verifIntRange("cols", 1, 3)
	rows := verifIntRange("rows", 0, verifParam("maxrows", 2))
	if ncols == 3 && rows > 1 {
		rows = 1 // the reference writes LowCardinality dictionaries of one entry
	}
	sl := verifIntRange("strlen", 0, 1)
	input, ref := vInput(ncols, rows, sl)
	q := Query{Body: "INSERT INTO t VALUES", QueryID: "q" + verifStr("id", 1), Input: input}
	var script rb
	script.srvData(1, vHeaderCols(ref), v)
	script.srvEndOfStream()
	conn := vNewConn(script.b)
	comp := proto.CompressionDisabled
	if framed {
		comp = proto.CompressionEnabled
	}
	c := vNewClient(conn, v, comp, compress.None, nil)
	// the schema block the server sends is itself framed when compression is on
	if framed {
		var s2 rb
		s2.uv(1)
		if v >= rTempTables {
			s2.str("")
		}
		// server blocks carry bucket 0, client blocks -1: build the frame with the server layout
		var body rb
		body.block0(vHeaderCols(ref), v)
		s2.frame(body.b)
		s2.srvEndOfStream()
		conn.script = s2.b
	}
	err := c.Do(context.Background(), q)
	verifAssert(err == nil, "insert-ok")
	rq := rQuery{id: q.QueryID, body: q.Body, compression: framed, clientName: "cl", major: 1, minor: 2, patch: 3, rev: v, addr: "127.0.0.1:9"}
	var want rb
	want.query(rq, v)
	want.data("", nil, v, framed)
	want.data("", ref, v, framed)
	want.data("", nil, v, framed)
	verifAssert(vBytesEq(conn.out, want.b), "insert-stream==reference")
	verifObserveBytes("out", conn.out)
}
