//go:build verif

package PKGNAME

// Harness intrinsics. The symbolic engine intercepts every function in this file
// by name and never interprets the bodies; the bodies exist so that the same
// harness compiles natively and replays a solver model (VERIF_CEX=<file>).

import (
	"encoding/json"
	"fmt"
	"math/rand"
	"os"
	"runtime"
	"sync"
	"sync/atomic"
	"time"
)

type verifCexFile struct {
	Values map[string]uint64 `json:"values"`
	Params map[string]int    `json:"params"`
}

var (
	verifVals     map[string]uint64
	verifCount    = map[string]int{}
	verifObserved []string
	verifNotes    []string
	verifParams   map[string]int
)

func verifNext(label string) uint64 {
	if verifVals == nil {
		verifVals = map[string]uint64{}
		if p := os.Getenv("VERIF_CEX"); p != "" {
			raw, err := os.ReadFile(p)
			if err != nil {
				panic(err)
			}
			var f verifCexFile
			if err := json.Unmarshal(raw, &f); err != nil {
				panic(err)
			}
			if f.Values != nil {
				verifVals = f.Values
			}
			verifParams = f.Params
		}
	}
	k := verifCount[label]
	verifCount[label] = k + 1
	return verifVals[fmt.Sprintf("%s#%d", label, k)]
}

// verifParam returns a tier-dependent bound (set by the check driver; def otherwise).
func verifParam(name string, def int) int {
	verifNext("")
	verifCount[""] = 0
	if v, ok := verifParams[name]; ok {
		return v
	}
	return def
}

func verifReset() {
	verifVals = nil
	verifCount = map[string]int{}
	verifObserved = nil
	verifNotes = nil
}

func verifU8(label string) uint8   { return uint8(verifNext(label)) }
func verifU16(label string) uint16 { return uint16(verifNext(label)) }
func verifU32(label string) uint32 { return uint32(verifNext(label)) }
func verifU64(label string) uint64 { return verifNext(label) }
func verifI8(label string) int8    { return int8(verifNext(label)) }
func verifI16(label string) int16  { return int16(verifNext(label)) }
func verifI32(label string) int32  { return int32(verifNext(label)) }
func verifI64(label string) int64  { return int64(verifNext(label)) }
func verifInt(label string) int    { return int(verifNext(label)) }
func verifBool(label string) bool  { return uint8(verifNext(label)) != 0 }

func verifBytes(label string, n int) []byte {
	b := make([]byte, n)
	for i := range b {
		b[i] = byte(verifNext(label))
	}
	return b
}

func verifStr(label string, n int) string { return string(verifBytes(label, n)) }

// verifIntRange returns a value in lo..hi; the engine forks over all of them.
func verifIntRange(label string, lo, hi int) int { return int(int64(verifNext(label))) }

// verifChoice returns a value in 0..n-1; the engine forks over all of them.
func verifChoice(label string, n int) int { return int(verifNext(label)) }

func verifAssume(cond bool) {
	if !cond {
		panic("VERIF-ASSUME-FAILED")
	}
}

func verifAssert(cond bool, label string) {
	if !cond {
		panic("VERIF-ASSERT " + label)
	}
}

func verifFail(label string) { panic("VERIF-ASSERT " + label) }

// verifOutside marks a region the harness declares outside its claim.
func verifOutside(label string) { panic("VERIF-OUTSIDE " + label) }

func verifNote(label string) { verifNotes = append(verifNotes, label) }

func verifObserveU64(label string, v uint64) {
	verifObserved = append(verifObserved, fmt.Sprintf("%s=%d", label, v))
}

func verifObserveBool(label string, v bool) {
	x := 0
	if v {
		x = 1
	}
	verifObserved = append(verifObserved, fmt.Sprintf("%s=%d", label, x))
}

func verifObserveBytes(label string, b []byte) {
	verifObserved = append(verifObserved, fmt.Sprintf("%s=%x", label, b))
}

func verifObserveStr(label string, s string) {
	verifObserved = append(verifObserved, fmt.Sprintf("%s=%x", label, s))
}

// verifEmit*: values compared between the two programs of a dual (translation validation) run.
func verifEmitBytes(label string, b []byte) {
	verifObserved = append(verifObserved, fmt.Sprintf("emit:%s=%x", label, b))
}

func verifEmitU64(label string, v uint64) {
	verifObserved = append(verifObserved, fmt.Sprintf("emit:%s=%d", label, v))
}

func verifEmitBool(label string, v bool) {
	x := 0
	if v {
		x = 1
	}
	verifObserved = append(verifObserved, fmt.Sprintf("emit:%s=%d", label, x))
}

// Non-short-circuit boolean connectives (no control-flow fork in the engine).
func vAnd(a, b bool) bool { return a && b }
func vOr(a, b bool) bool  { return a || b }
func vNot(a bool) bool    { return !a }
func vImp(a, b bool) bool { return !a || b }

// verifYield is a scheduling point. Natively, with VERIF_JITTER set, it sleeps for a random
// few hundred microseconds so that repeated replays visit different interleavings.
func verifYield() {
	if verifJitter() {
		time.Sleep(time.Duration(rand.Intn(300)) * time.Microsecond)
		return
	}
	runtime.Gosched()
}

var (
	verifJitterOnce sync.Once
	verifJitterOn   bool
)

func verifJitter() bool {
	verifJitterOnce.Do(func() { verifJitterOn = os.Getenv("VERIF_JITTER") != "" })
	return verifJitterOn
}

// verifWait yields; natively it always reports that somebody else may have run.
func verifWait() bool {
	n := verifWaits.Add(1)
	switch {
	case n%16 == 0 && n > 2000:
		// a budget of a few seconds of wall time, so that a loaded machine does not turn a slow
		// counterpart into a spurious "nobody else can run"
		time.Sleep(200 * time.Microsecond)
	case n%64 == 0:
		time.Sleep(50 * time.Microsecond)
	default:
		runtime.Gosched()
	}
	return n < 200000
}

var verifWaits atomic.Int64

// verifAllocMark / verifAllocCheck bracket a call on a native replay: if more than limit bytes were
// allocated in between, the replay aborts the way an allocation beyond the ceiling does in the
// engine (which has its own implicit assertion and ignores these two).
var verifAllocBase uint64

func verifAllocMark() {
	var m runtime.MemStats
	runtime.ReadMemStats(&m)
	verifAllocBase = m.TotalAlloc
}

func verifAllocCheck(limit int64) {
	var m runtime.MemStats
	runtime.ReadMemStats(&m)
	if d := m.TotalAlloc - verifAllocBase; d > uint64(limit) {
		panic(fmt.Sprintf("VERIF-ALLOC %d bytes allocated (limit %d)", d, limit))
	}
}

// verifAwaitClose blocks until ch is closed (true) or the deadline (unix ms; 0: none) passes (false).
// Natively it really waits; the engine lets everybody else run first and, when nothing else can
// happen, fires the earliest deadline on its virtual clock.
func verifAwaitClose(ch chan struct{}, deadlineMs int64) bool {
	if deadlineMs == 0 {
		<-ch
		return true
	}
	d := time.Until(time.UnixMilli(deadlineMs))
	if d > 20*time.Second {
		d = 20 * time.Second
	}
	select {
	case <-ch:
		return true
	case <-time.After(d):
		return false
	}
}

// verifWaitDL is verifWait for an operation with a deadline (unix ms, 0: none): when nothing else
// can happen any more, the poller with the earliest deadline is the one told so first.
func verifWaitDL(deadlineMs int64) bool { return verifWait() }

func verifPollContexts() {}

// verifClockAdvanceTo: natively a blocked read really waits for its deadline (at most 20 s, so that
// a deadline that is far away shows up as a test timeout).
func verifClockAdvanceTo(unixMilli int64) {
	d := time.Until(time.UnixMilli(unixMilli))
	if d > 20*time.Second {
		d = 20 * time.Second
	}
	if d > 0 {
		time.Sleep(d)
	}
}

// verifSettle lets background goroutines (asynchronous destructors) finish.
func verifSettle() { time.Sleep(3 * time.Millisecond) }
func verifSchedPolicy(policy string, free int) {}
func verifLiveGoroutines() int                { return 0 }
func verifGrowExact(on bool)                  {}
