//go:build verif

package PKGNAME

import "io"

var vIOEOF = io.EOF

// vBytesEq compares two byte slices without control-flow on their contents.
func vBytesEq(a, b []byte) bool {
	if len(a) != len(b) {
		return false
	}
	eq := true
	for i := range a {
		eq = vAnd(eq, a[i] == b[i])
	}
	return eq
}

func vStrEq(a, b string) bool {
	if len(a) != len(b) {
		return false
	}
	eq := true
	for i := 0; i < len(a); i++ {
		eq = vAnd(eq, a[i] == b[i])
	}
	return eq
}

// vSink is an io.Writer that records a copy of what it is given and may fail.
type vSink struct {
	got       []byte
	failAfter int // -1: never fails; otherwise accepts exactly failAfter more bytes, then errors
	short     bool
	calls     int
}

type vSinkErr struct{}

func (vSinkErr) Error() string { return "sink failure" }

func (s *vSink) Write(p []byte) (int, error) {
	s.calls++
	if s.failAfter < 0 {
		s.got = append(s.got, p...)
		return len(p), nil
	}
	if len(p) <= s.failAfter {
		s.got = append(s.got, p...)
		s.failAfter -= len(p)
		return len(p), nil
	}
	n := s.failAfter
	s.got = append(s.got, p[:n]...)
	s.failAfter = 0
	return n, vSinkErr{}
}

// vChunkReader delivers data in transport-chosen pieces.
//   policy 0: one byte per Read
//   policy 1: k bytes, then everything else
//   policy 2: pieces end wherever bit i of mask is set (all 2^(n-1) segmentations for short streams)
type vChunkReader struct {
	data   []byte
	pos    int
	policy int
	k      int
	mask   uint64
	reads  int
}

type vEOF struct{}

func (vEOF) Error() string { return "EOF" }

func (c *vChunkReader) Read(p []byte) (int, error) {
	c.reads++
	if len(p) == 0 {
		return 0, nil
	}
	rest := len(c.data) - c.pos
	if rest == 0 {
		return 0, vIOEOF
	}
	n := rest
	switch c.policy {
	case 0:
		n = 1
	case 1:
		if c.pos < c.k {
			n = c.k - c.pos
		}
	case 2:
		n = 1
		for c.pos+n < len(c.data) && c.mask>>uint(c.pos+n-1)&1 == 0 {
			n++
		}
	}
	if n > rest {
		n = rest
	}
	if n > len(p) {
		n = len(p)
	}
	copy(p, c.data[c.pos:c.pos+n])
	c.pos += n
	return n, nil
}
