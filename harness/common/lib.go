//go:build verif

package PKGNAME

// vBytesEq compares two byte slices without control-flow on their contents.
func vBytesEq(a, b []byte) bool {
	if len(a) != len(b) {
		return false
	}
	eq := true
	for i := range a {
		eq = vAnd(eq, a[i] == b[i])
	}
	return eq
}

func vStrEq(a, b string) bool {
	if len(a) != len(b) {
		return false
	}
	eq := true
	for i := 0; i < len(a); i++ {
		eq = vAnd(eq, a[i] == b[i])
	}
	return eq
}

// vSink is an io.Writer that records a copy of what it is given and may fail.
type vSink struct {
	got       []byte
	failAfter int // -1: never fails; otherwise accepts exactly failAfter more bytes, then errors
	short     bool
	calls     int
}

type vSinkErr struct{}

func (vSinkErr) Error() string { return "sink failure" }

func (s *vSink) Write(p []byte) (int, error) {
	s.calls++
	if s.failAfter < 0 {
		s.got = append(s.got, p...)
		return len(p), nil
	}
	if len(p) <= s.failAfter {
		s.got = append(s.got, p...)
		s.failAfter -= len(p)
		return len(p), nil
	}
	n := s.failAfter
	s.got = append(s.got, p[:n]...)
	s.failAfter = 0
	return n, vSinkErr{}
}
