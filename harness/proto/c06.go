//go:build verif

package proto

import (
	"bytes"
	"time"
)

// VerifC06LowCardinalityRaw: the raw LowCardinality column over a UInt8 dictionary.
func VerifC06LowCardinalityRaw() {
	rows := verifIntRange("rows", 0, verifParam("maxrows", 2))
	data := verifBytes("in", verifParam("inlen", 10))
	c := &ColLowCardinalityRaw{Index: new(ColUInt8)}
	r := NewReader(bytes.NewReader(data))
	if err := c.DecodeState(r); err != nil {
		verifNote("state-rejected")
		return
	}
	if err := c.DecodeColumn(r, rows); err != nil {
		verifNote("column-rejected")
		return
	}
	verifAssert(c.Rows() == rows, "rows-consistent")
	verifNote("accepted")
}

// VerifC06Messages: every message decoder on arbitrary bytes and an arbitrary revision
// terminates with an error or a result.
func VerifC06Messages() {
	v := verifInt("version")
	data := verifBytes("in", verifParam("inlen", 8))
	r := NewReader(bytes.NewReader(data))
	var err error
	switch verifChoice("msg", 10) {
	case 0:
		var d ClientHello
		err = d.Decode(r)
	case 1:
		var d ServerHello
		err = d.DecodeAware(r, v)
	case 2:
		var d Progress
		err = d.DecodeAware(r, v)
	case 3:
		var d Profile
		err = d.DecodeAware(r, v)
	case 4:
		var d Exception
		err = d.DecodeAware(r, v)
	case 5:
		var d TableColumns
		err = d.DecodeAware(r, v)
	case 6:
		var d ClientData
		err = d.DecodeAware(r, v)
	case 7:
		var d BlockInfo
		err = d.Decode(r)
	case 8:
		var d Query
		err = d.DecodeAware(r, v)
	case 9:
		var d ClientInfo
		err = d.DecodeAware(r, v)
	}
	if err != nil {
		verifNote("rejected")
	} else {
		verifNote("accepted")
	}
}

// VerifC06RawBlock: a whole block of arbitrary bytes through automatic inference and
// through a typed String target.
func VerifC06RawBlock() {
	v := verifInt("version")
	data := verifBytes("in", verifParam("inlen", 8))
	r := NewReader(bytes.NewReader(data))
	var b Block
	var err error
	var res Results
	switch verifChoice("target", 4) {
	case 0:
		err = b.DecodeBlock(r, v, res.Auto())
	case 1:
		res = Results{{Data: new(ColInt8)}} // a short type name: a block with this column fits into few bytes
		err = b.DecodeBlock(r, v, res)
	case 2: // a typed target that already holds a row of an earlier block
		used := new(ColInt8)
		used.Append(7)
		res = Results{{Data: used}}
		err = b.DecodeBlock(r, v, res)
	case 3: // inferred targets that an earlier block has bound and filled
		var w refBuf
		w.vint(1)
		w.vint(1)
		w.str("a")
		w.str("Int8")
		if v >= refRevCustomSerial {
			w.u8(0)
		}
		w.u8(7)
		var first Block
		if first.DecodeRawBlock(NewReader(bytes.NewReader(w.b)), v, res.Auto()) != nil {
			return
		}
		err = b.DecodeBlock(r, v, res.Auto())
	}
	if err != nil {
		verifNote("rejected")
		return
	}
	verifNote("accepted")
	if b.Columns == 0 && b.Rows == 0 {
		// the empty end-of-data marker (no columns, no rows): the targets are not part of it
		return
	}
	for _, c := range res {
		verifAssert(c.Data.Rows() == b.Rows, "rows-consistent")
	}
}

// VerifC16LowCardinalityWidths: one LowCardinality column object through histories that mix
// blocks whose key width the server chose (UInt8/16/32/64 keys are all legal for a small
// dictionary) with the column's own Prepare/encode (which picks the width from the dictionary
// size), Reset and appends: after every step the column holds exactly the model's values, and
// what it encodes reads back as them.
func VerifC16LowCardinalityWidths() {
	version := 54460
	c := new(ColUInt8).LowCardinality()
	var model []uint8
	serverBlock := func() ([]uint8, []byte) {
		rows := verifIntRange("k", 1, 2)
		keyw := verifChoice("keywidth", 4)
		nd := 2
		dict := verifBytes("dict", nd)
		var w refBuf
		w.vint(1)
		w.vint(rows)
		w.str("c")
		w.str("LowCardinality(UInt8)")
		w.u8(0)
		w.u64(1)                           // key serialization version
		w.u64(uint64(keyw) | 1<<9 | 1<<10) // key type, additional keys, update dictionary
		w.u64(uint64(nd))
		w.b = append(w.b, dict...)
		w.u64(uint64(rows))
		vals := make([]uint8, rows)
		for i := 0; i < rows; i++ {
			k := verifU8("key")
			verifAssume(k <= 1)
			vals[i] = dict[0] ^ ((dict[0] ^ dict[1]) & (0 - k)) // dict[k], branch-free
			for j := 0; j < 1<<keyw; j++ {
				if j == 0 {
					w.u8(k)
				} else {
					w.u8(0)
				}
			}
		}
		return vals, w.b
	}
	same := func(label string) {
		eq := c.Rows() == len(model)
		for i := 0; i < len(model) && i < c.Rows(); i++ {
			eq = vAnd(eq, c.Row(i) == model[i])
		}
		verifAssert(eq, label)
	}
	check := func() {
		var b Buffer
		blk := Block{Columns: 1, Rows: len(model)}
		err := blk.EncodeRawBlock(&b, version, []InputColumn{{Name: "c", Data: c}})
		verifAssert(err == nil, "widths-encode-ok")
		fresh := new(ColUInt8).LowCardinality()
		var d Block
		err = d.DecodeRawBlock(NewReader(bytes.NewReader(b.Buf)), version, Results{{Name: "c", Data: fresh}})
		verifAssert(err == nil, "widths-readback-ok")
		eq := fresh.Rows() == len(model)
		for i := 0; i < len(model) && i < fresh.Rows(); i++ {
			eq = vAnd(eq, fresh.Row(i) == model[i])
		}
		verifAssert(eq, "widths-encoded==model")
	}
	steps := verifIntRange("steps", 1, verifParam("maxsteps", 4))
	for s := 0; s < steps; s++ {
		switch verifChoice("step", 4) {
		case 0: // a block from the server into the used column
			vals, data := serverBlock()
			var d Block
			err := d.DecodeRawBlock(NewReader(bytes.NewReader(data)), version, Results{{Name: "c", Data: c}})
			verifAssert(err == nil, "widths-decode-ok")
			model = vals
			same("widths-decoded==block")
		case 1: // relay: encode what the column holds
			check()
		case 2:
			c.Reset()
			model = nil
			same("widths-empty-after-reset")
		case 3:
			v := verifU8("v")
			c.Append(v)
			model = append(model, v)
		}
	}
	check()
	verifObserveU64("rows", uint64(len(model)))
}

// VerifC06HostileTypeName: the type name of a column is input like any other byte: a block whose
// type name is an arbitrary short string, decoded into each kind of typed target that derives its
// parameters from that name (Infer runs before the type check), is rejected or accepted - it never
// panics.
func VerifC06HostileTypeName() {
	version := 54460
	name := verifStr("typename", verifIntRange("len", 0, verifParam("maxlen", 4)))
	for i := 0; i < len(name); i++ {
		verifAssume(vAnd(name[i] >= 0x20, name[i] < 0x7f))
	}
	var target ColResult
	switch verifChoice("target", 12) {
	case 0:
		target = new(ColDateTime)
	case 1:
		target = new(ColDateTime64)
	case 2:
		target = new(ColEnum)
	case 3:
		target = new(ColFixedStr)
	case 4:
		target = new(ColInterval)
	case 5:
		target = new(ColDateTime).Array()
	case 6:
		target = NewColNullable[string](new(ColEnum))
	case 7:
		target = NewMap[string, time.Time](new(ColStr), new(ColDateTime))
	case 8:
		target = new(ColStr).LowCardinality()
	case 9:
		target = new(ColAuto)
	case 10:
		target = ColTuple{new(ColDateTime64), new(ColStr)}
	case 11:
		target = NewArray[[]time.Time](new(ColDateTime64).Array())
	}
	var w refBuf
	w.vint(1)
	w.vint(0)
	w.str("a")
	w.str(name)
	w.u8(0)
	var blk Block
	err := blk.DecodeRawBlock(NewReader(bytes.NewReader(w.b)), version, Results{{Name: "a", Data: target}})
	if err != nil {
		verifNote("rejected")
	} else {
		verifNote("accepted")
	}
	verifObserveU64("len", uint64(len(name)))
}
