//go:build verif

package proto

import "bytes"

// VerifC06LowCardinalityRaw: the raw LowCardinality column over a UInt8 dictionary.
func VerifC06LowCardinalityRaw() {
	rows := verifIntRange("rows", 0, verifParam("maxrows", 2))
	data := verifBytes("in", verifParam("inlen", 10))
	c := &ColLowCardinalityRaw{Index: new(ColUInt8)}
	r := NewReader(bytes.NewReader(data))
	if err := c.DecodeState(r); err != nil {
		verifNote("state-rejected")
		return
	}
	if err := c.DecodeColumn(r, rows); err != nil {
		verifNote("column-rejected")
		return
	}
	verifAssert(c.Rows() == rows, "rows-consistent")
	verifNote("accepted")
}

// VerifC06Messages: every message decoder on arbitrary bytes and an arbitrary revision
// terminates with an error or a result.
func VerifC06Messages() {
	v := verifInt("version")
	data := verifBytes("in", verifParam("inlen", 8))
	r := NewReader(bytes.NewReader(data))
	var err error
	switch verifChoice("msg", 10) {
	case 0:
		var d ClientHello
		err = d.Decode(r)
	case 1:
		var d ServerHello
		err = d.DecodeAware(r, v)
	case 2:
		var d Progress
		err = d.DecodeAware(r, v)
	case 3:
		var d Profile
		err = d.DecodeAware(r, v)
	case 4:
		var d Exception
		err = d.DecodeAware(r, v)
	case 5:
		var d TableColumns
		err = d.DecodeAware(r, v)
	case 6:
		var d ClientData
		err = d.DecodeAware(r, v)
	case 7:
		var d BlockInfo
		err = d.Decode(r)
	case 8:
		var d Query
		err = d.DecodeAware(r, v)
	case 9:
		var d ClientInfo
		err = d.DecodeAware(r, v)
	}
	if err != nil {
		verifNote("rejected")
	} else {
		verifNote("accepted")
	}
}

// VerifC06RawBlock: a whole block of arbitrary bytes through automatic inference and
// through a typed String target.
func VerifC06RawBlock() {
	v := verifInt("version")
	data := verifBytes("in", verifParam("inlen", 8))
	r := NewReader(bytes.NewReader(data))
	var b Block
	var err error
	var res Results
	if verifChoice("target", 2) == 0 {
		err = b.DecodeBlock(r, v, res.Auto())
	} else {
		res = Results{{Data: new(ColStr)}}
		err = b.DecodeBlock(r, v, res)
	}
	if err != nil {
		verifNote("rejected")
		return
	}
	verifNote("accepted")
	for _, c := range res {
		verifAssert(c.Data.Rows() == b.Rows, "rows-consistent")
	}
}
