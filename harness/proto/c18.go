//go:build verif

package proto

import "bytes"

// server-side column kinds: type string + wire layout of `rows` symbolic cells
type vSrvKind struct {
	typ  string
	cell func(b *refBuf, rows int)
}

func vRawCells(width int) func(b *refBuf, rows int) {
	return func(b *refBuf, rows int) { b.b = append(b.b, verifBytes("cell", width*rows)...) }
}

var vSrvKinds = []vSrvKind{
	{"UInt8", vRawCells(1)},  // 0
	{"Int8", vRawCells(1)},   // 1
	{"UInt64", vRawCells(8)}, // 2
	{"String", func(b *refBuf, rows int) { // 3: one-byte strings
		for i := 0; i < rows; i++ {
			b.u8(1)
			b.u8(verifU8("cell"))
		}
	}},
	{"Enum8('a'=1,'b'=2)", func(b *refBuf, rows int) { // 4
		for i := 0; i < rows; i++ {
			v := verifU8("cell")
			verifAssume(vOr(v == 1, v == 2))
			b.u8(v)
		}
	}},
	{"DateTime", vRawCells(4)},      // 5
	{"DateTime64(3)", vRawCells(8)}, // 6
	{"DateTime64(6)", vRawCells(8)}, // 7
	{"Array(UInt8)", func(b *refBuf, rows int) { // 8: one element per row
		for i := 0; i < rows; i++ {
			b.u64(uint64(i + 1))
		}
		b.b = append(b.b, verifBytes("cell", rows)...)
	}},
	{"Nullable(UInt8)", func(b *refBuf, rows int) { // 9
		for i := 0; i < rows; i++ {
			n := verifU8("null")
			verifAssume(n <= 1)
			b.u8(n)
		}
		b.b = append(b.b, verifBytes("cell", rows)...)
	}},
	{"Decimal(9, 2)", vRawCells(4)},  // 10
	{"FixedString(2)", vRawCells(2)}, // 11
	{"Decimal(9,2)", vRawCells(4)},   // 12: spacing variant
}

type vTgtKind struct {
	name string
	mk   func() ColResult
}

var vTgtKinds = []vTgtKind{
	{"ColUInt8", func() ColResult { return new(ColUInt8) }},                                 // 0
	{"ColInt8", func() ColResult { return new(ColInt8) }},                                   // 1
	{"ColUInt64", func() ColResult { return new(ColUInt64) }},                               // 2
	{"ColStr", func() ColResult { return new(ColStr) }},                                     // 3
	{"ColEnum", func() ColResult { return new(ColEnum) }},                                   // 4
	{"ColDateTime", func() ColResult { return new(ColDateTime) }},                           // 5
	{"ColDateTime64", func() ColResult { return new(ColDateTime64) }},                       // 6
	{"ColDateTime64(p=3)", func() ColResult { return new(ColDateTime64).WithPrecision(3) }}, // 7
	{"ColArr[uint8]", func() ColResult { return new(ColUInt8).Array() }},                    // 8
	{"ColNullable[uint8]", func() ColResult { return new(ColUInt8).Nullable() }},            // 9
	{"ColDecimal32", func() ColResult { return new(ColDecimal32) }},                         // 10
	{"ColFixedStr(2)", func() ColResult { return &ColFixedStr{Size: 2} }},                   // 11
	{"ColDecimal64", func() ColResult { return new(ColDecimal64) }},                         // 12
	{"ColArr[uint64]", func() ColResult { return new(ColUInt64).Array() }},                  // 13
}

// vCompat[s][t]: +1 the pair must bind, -1 it must be rejected, 0 left open by the statement.
func vCompat(s, t int) int {
	same := map[int]int{0: 0, 1: 1, 2: 2, 3: 3, 4: 4, 5: 5, 8: 8, 9: 9, 10: 10, 11: 11, 12: 10}
	if tt, ok := same[s]; ok && tt == t {
		return 1
	}
	switch {
	case s == 4 && t == 1: // enum and its underlying integer
		return 1
	case (s == 6 || s == 7) && (t == 6 || t == 7): // timestamp adopts the server's precision
		return 1
	case s == 1 && t == 4: // Int8 into an un-inferred ColEnum: Infer fails; left open
		return 0
	case s == 8 && t == 13: // element type differs
		return -1
	}
	// different base type in every remaining pair of this table
	return -1
}

func vEncodeTarget(c ColResult) []byte {
	var b Buffer
	if p, ok := c.(Preparable); ok {
		_ = p.Prepare()
	}
	if in, ok := c.(ColInput); ok {
		in.EncodeColumn(&b)
	}
	return b.Buf
}

// VerifC18Bind: a block of 1..2 columns against 0..2 targets.
func VerifC18Bind() {
	version := verifInt("version")
	ncols := verifIntRange("ncols", 1, verifParam("maxcols", 2))
	ntgt := verifIntRange("ntargets", 0, verifParam("maxcols", 2))
	rows := verifIntRange("rows", 0, 1)
	// --- server block
	var w refBuf
	w.vint(ncols)
	w.vint(rows)
	sk := make([]int, ncols)
	names := make([]string, ncols)
	cells := make([][]byte, ncols)
	for i := 0; i < ncols; i++ {
		sk[i] = verifChoice("srv", verifParam("srvmax", len(vSrvKinds)))
		names[i] = verifStr("name", 1)
		w.str(names[i])
		w.str(vSrvKinds[sk[i]].typ)
		if version >= refRevCustomSerial {
			w.u8(0)
		}
		var c refBuf
		if rows > 0 {
			vSrvKinds[sk[i]].cell(&c, rows)
		}
		cells[i] = c.b
		w.b = append(w.b, c.b...)
	}
	// --- targets
	res := make(Results, ntgt)
	tk := make([]int, ntgt)
	blank := make([]bool, ntgt)
	tnames := make([]string, ntgt)
	for i := 0; i < ntgt; i++ {
		tk[i] = verifChoice("tgt", verifParam("tgtmax", len(vTgtKinds)))
		blank[i] = verifChoice("blank", 2) == 1
		if !blank[i] {
			tnames[i] = verifStr("tname", 1)
		}
		res[i] = ResultColumn{Name: tnames[i], Data: vTgtKinds[tk[i]].mk()}
	}
	var blk Block
	err := blk.DecodeRawBlock(NewReader(bytes.NewReader(w.b)), version, res)
	if err == nil {
		verifNote("accepted")
		verifAssert(ncols == ntgt || (ntgt == 0 && rows == 0), "accepted-count")
		for i := 0; i < ntgt && i < ncols; i++ {
			verifAssert(vOr(blank[i], vStrEq(tnames[i], names[i])), "accepted-name")
			verifAssert(vStrEq(res[i].Name, names[i]), "blank-name-filled")
			verifAssert(vCompat(sk[i], tk[i]) >= 0, "accepted-only-compatible")
			verifAssert(res[i].Data.Rows() == rows, "accepted-rows")
			verifAssert(vBytesEq(vEncodeTarget(res[i].Data), cells[i]), "target-holds-its-column")
		}
		// inferable targets adopted the server's parameters
		for i := 0; i < ntgt && i < ncols; i++ {
			if d, ok := res[i].Data.(*ColDateTime64); ok {
				want := Precision(3)
				if sk[i] == 7 {
					want = 6
				}
				verifAssert(d.PrecisionSet && d.Precision == want, "precision-adopted")
			}
			if e, ok := res[i].Data.(*ColEnum); ok && sk[i] == 4 {
				verifAssert(e.Type() == ColumnType(vSrvKinds[4].typ), "enum-adopted")
			}
		}
		return
	}
	verifNote("rejected")
	// a must-bind situation may not be rejected
	must := ncols == ntgt
	for i := 0; i < ntgt && i < ncols; i++ {
		must = must && vCompat(sk[i], tk[i]) == 1
	}
	if must {
		ok := true
		for i := 0; i < ntgt; i++ {
			ok = vAnd(ok, vOr(blank[i], vStrEq(tnames[i], names[i])))
		}
		verifAssert(vNot(ok), "compatible-block-rejected")
	}
	// no target received another column's data: target i is empty or holds column i's cells
	for i := 0; i < ntgt; i++ {
		got := vEncodeTarget(res[i].Data)
		own := i < ncols && vBytesEq(got, cells[i])
		verifAssert(vOr(len(got) == 0, own), "no-foreign-data")
	}
}

// VerifC18Names: blank names are filled from the first block and enforced on the second.
func VerifC18Names() {
	version := 54460
	mk := func(name string, v byte) []byte {
		var w refBuf
		w.vint(1)
		w.vint(1)
		w.str(name)
		w.str("UInt8")
		w.u8(0)
		w.u8(v)
		return w.b
	}
	n1, n2 := verifStr("n1", 1), verifStr("n2", 1)
	v1, v2 := verifU8("v1"), verifU8("v2")
	col := new(ColUInt8)
	res := Results{{Data: col}}
	var blk Block
	err := blk.DecodeRawBlock(NewReader(bytes.NewReader(mk(n1, v1))), version, res)
	verifAssert(err == nil, "first-block-ok")
	verifAssert(vStrEq(res[0].Name, n1), "name-filled-from-first-block")
	verifAssert(col.Rows() == 1 && (*col)[0] == v1, "first-block-data")
	err = blk.DecodeRawBlock(NewReader(bytes.NewReader(mk(n2, v2))), version, res)
	if err == nil {
		verifAssert(vStrEq(n1, n2), "second-block-name-enforced")
		verifAssert(col.Rows() == 1 && (*col)[0] == v2, "second-block-data")
	} else {
		verifAssert(vNot(vStrEq(n1, n2)), "same-name-rejected")
	}
}

// VerifC18Decimal: Decimal(P,S) binds to exactly the DecimalNN target its precision selects
// (P<=9: 32, <=18: 64, <=38: 128, <=76: 256), for every precision 1..76, in both directions.
func VerifC18Decimal() {
	d1, d2 := verifU8("d1"), verifU8("d2")
	verifAssume(vAnd(vAnd(d1 >= '0', d1 <= '7'), vAnd(d2 >= '0', d2 <= '9')))
	p := int(d1-'0')*10 + int(d2-'0')
	verifAssume(vAnd(p >= 1, p <= 76))
	srv := ColumnType("Decimal(" + string([]byte{d1, d2}) + ", 2)")
	class := 3
	switch {
	case p <= 9:
		class = 0
	case p <= 18:
		class = 1
	case p <= 38:
		class = 2
	}
	targets := [4]ColumnType{ColumnTypeDecimal32, ColumnTypeDecimal64, ColumnTypeDecimal128, ColumnTypeDecimal256}
	for i, t := range targets {
		want := i != class
		verifAssert(srv.Conflicts(t) == want, "decimal-precision-class")
		verifAssert(t.Conflicts(srv) == want, "decimal-precision-class-sym")
	}
	// and through the binder: a zero-row header block against each typed target
	var w refBuf
	w.vint(1)
	w.vint(0)
	w.str("a")
	w.str(string(srv))
	w.u8(0)
	mk := [4]func() ColResult{
		func() ColResult { return new(ColDecimal32) }, func() ColResult { return new(ColDecimal64) },
		func() ColResult { return new(ColDecimal128) }, func() ColResult { return new(ColDecimal256) },
	}
	k := verifChoice("target", 4)
	var blk Block
	err := blk.DecodeRawBlock(NewReader(bytes.NewReader(w.b)), 54460, Results{{Name: "a", Data: mk[k]()}})
	verifAssert((err == nil) == (k == class), "decimal-binds-only-to-its-class")
}

// kinds for block sequences: pairs that share a base type but differ in a parameter or element
var vSeqKinds = []vSrvKind{
	{"UInt8", vRawCells(1)},             // 0
	{"Array(UInt8)", vSrvKinds[8].cell}, // 1
	{"Array(UInt64)", func(b *refBuf, rows int) { // 2
		for i := 0; i < rows; i++ {
			b.u64(uint64(i + 1))
		}
		b.b = append(b.b, verifBytes("cell", 8*rows)...)
	}},
	{"Array(String)", func(b *refBuf, rows int) { // 3
		for i := 0; i < rows; i++ {
			b.u64(uint64(i + 1))
		}
		for i := 0; i < rows; i++ {
			b.u8(1)
			b.u8(verifU8("cell"))
		}
	}},
	{"Nullable(UInt8)", vSrvKinds[9].cell}, // 4
	{"Nullable(UInt32)", func(b *refBuf, rows int) { // 5
		for i := 0; i < rows; i++ {
			n := verifU8("null")
			verifAssume(n <= 1)
			b.u8(n)
		}
		b.b = append(b.b, verifBytes("cell", 4*rows)...)
	}},
	{"FixedString(1)", vRawCells(1)},          // 6
	{"FixedString(2)", vRawCells(2)},          // 7
	{"DateTime64(3)", vRawCells(8)},           // 8
	{"DateTime64(6)", vRawCells(8)},           // 9
	{"Decimal(9, 2)", vRawCells(4)},           // 10
	{"Decimal(18, 2)", vRawCells(8)},          // 11
	{"Enum8('a'=1,'b'=2)", vSrvKinds[4].cell}, // 12
	{"Enum8('x'=1,'y'=2)", vSrvKinds[4].cell}, // 13
	{"Enum16('a'=1,'b'=2)", func(b *refBuf, rows int) { // 14
		for i := 0; i < rows; i++ {
			v := verifU8("cell")
			verifAssume(vOr(v == 1, v == 2))
			b.u8(v)
			b.u8(0)
		}
	}},
	{"DateTime", vRawCells(4)},        // 15
	{"DateTime('UTC')", vRawCells(4)}, // 16
	{"String", vSrvKinds[3].cell},     // 17
}

// VerifC18AutoSequence: two blocks with (possibly) different schemas against the same
// auto-inferred target: the second block is either rejected, or the target then is what a fresh
// target bound to the second block's type is - same column type with the same parameters,
// holding exactly the second block's cells.
func VerifC18AutoSequence() {
	version := 54460
	s1 := verifChoice("first", len(vSeqKinds))
	s2 := verifChoice("second", len(vSeqKinds))
	rows := verifIntRange("rows", 0, 1)
	mk := func(k int, rows int) (blk, cells []byte) {
		var w, c refBuf
		w.vint(1)
		w.vint(rows)
		w.str("v")
		w.str(vSeqKinds[k].typ)
		w.u8(0)
		if rows > 0 {
			vSeqKinds[k].cell(&c, rows)
		}
		w.b = append(w.b, c.b...)
		return w.b, c.b
	}
	b1, _ := mk(s1, 1)
	b2, cells2 := mk(s2, rows)
	res := Results{AutoResult("v")}
	var blk Block
	if err := blk.DecodeRawBlock(NewReader(bytes.NewReader(b1)), version, res); err != nil {
		verifNote("first-type-not-inferable")
		return
	}
	fresh := Results{AutoResult("v")}
	var blk2 Block
	ferr := blk2.DecodeRawBlock(NewReader(bytes.NewReader(b2)), version, fresh)
	if ferr != nil {
		// not every type is inferable (FixedString(N) is not): nothing to compare against
		verifNote("second-type-not-inferable")
		return
	}
	err := blk.DecodeRawBlock(NewReader(bytes.NewReader(b2)), version, res)
	if err != nil {
		verifNote("second-block-rejected")
		verifAssert(s1 != s2, "same-schema-rejected")
		return
	}
	verifNote("second-block-accepted")
	got, want := res[0].Data.(*ColAuto), fresh[0].Data.(*ColAuto)
	verifAssert(got.Data.Type() == want.Data.Type(), "rebound-column-type-and-parameters")
	verifAssert(got.Rows() == rows, "rebound-rows")
	verifAssert(vBytesEq(vEncodeTarget(got.Data.(ColResult)), cells2), "rebound-target-holds-second-block")
	if e, ok := got.Data.(*ColEnum); ok && rows > 0 {
		w := want.Data.(*ColEnum)
		verifAssert(vStrEq(e.Row(0), w.Row(0)), "rebound-enum-names")
	}
	if d, ok := got.Data.(*ColDateTime64); ok && rows > 0 {
		w := want.Data.(*ColDateTime64)
		verifAssert(d.PrecisionSet == w.PrecisionSet && d.Precision == w.Precision, "rebound-datetime64-precision")
	}
}

// VerifC01DecimalInfer: a block whose column type is spelled Decimal(P, S), as servers spell it,
// decoded through automatic inference: for every precision 1..76 the inferred column has the
// width its precision class defines (4/8/16/32 bytes per value), consumes exactly the block and
// holds exactly the cells sent.
func VerifC01DecimalInfer() {
	version := 54460
	p := verifIntRange("precision", 1, 76)
	scale := 0
	if verifChoice("scale", 2) == 1 {
		scale = p
	}
	width := 4
	switch {
	case p >= 39:
		width = 32
	case p >= 19:
		width = 16
	case p >= 10:
		width = 8
	}
	rows := verifIntRange("rows", 1, 2)
	sep := [2]string{", ", ","}[verifChoice("spacing", 2)]
	var w refBuf
	w.vint(1)
	w.vint(rows)
	w.str("d")
	w.str("Decimal(" + vItoa(p) + sep + vItoa(scale) + ")")
	w.u8(0)
	cells := verifBytes("cell", width*rows)
	w.b = append(w.b, cells...)
	var res Results
	var blk Block
	r := NewReader(bytes.NewReader(w.b))
	err := blk.DecodeRawBlock(r, version, res.Auto())
	verifAssert(err == nil, "decimal-auto-decode-ok")
	if err != nil {
		return
	}
	verifAssert(len(res) == 1 && res[0].Data.Rows() == rows, "decimal-auto-rows")
	verifAssert(vBytesEq(vEncodeTarget(res[0].Data), cells), "decimal-auto-values")
	verifAssert(vExhausted(r), "decimal-auto-exhausted")
	verifObserveU64("width", uint64(width))
}

func vItoa(n int) string {
	if n < 10 {
		return string([]byte{byte('0' + n)})
	}
	return string([]byte{byte('0' + n/10), byte('0' + n%10)})
}
