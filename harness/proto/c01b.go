//go:build verif

package proto

import (
	"math"
	"time"

	"github.com/google/uuid"
)

// vOfLeaf instantiates the block round trip for any ColumnOf[T].
func vOfLeaf[T any](name string, inferable bool, mk func() ColumnOf[T], gen func() T, eq func(a, b T) bool) {
	auto := func(c Column) (Column, bool) { _, ok := c.(ColumnOf[T]); return c, ok }
	if !inferable {
		auto = nil
	}
	vBlockRoundTrip(vLeafSpec[T]{
		name:   name,
		mk:     func() Column { return mk() },
		gen:    gen,
		app:    func(c Column, v T) { c.(ColumnOf[T]).Append(v) },
		appArr: func(c Column, vs []T) { c.(ColumnOf[T]).AppendArr(vs) },
		row:    func(c Column, i int) T { return c.(ColumnOf[T]).Row(i) },
		eq:     eq,
		auto:   auto,
		emit: func(v T) {
			switch x := any(v).(type) {
			case bool:
				verifEmitBool("row", x)
			case uuid.UUID:
				verifEmitBytes("row", x[:])
			default:
				verifFail("no-emitter-for-type")
			}
		},
	})
}

func vGenStr() string {
	return verifStr("s", verifIntRange("slen", verifParam("minstr", 0), verifParam("maxstr", 2)))
}
func vGenBytes() []byte {
	return verifBytes("s", verifIntRange("slen", verifParam("minstr", 0), verifParam("maxstr", 2)))
}
func vGenU64() uint64 { return verifU64("v") }
func vGenU8() uint8   { return verifU8("v") }
func vGenUUID() (u uuid.UUID) {
	copy(u[:], verifBytes("uuid", 16))
	return u
}
func vEqU64(a, b uint64) bool     { return a == b }
func vEqU8(a, b uint8) bool       { return a == b }
func vEqUUID(a, b uuid.UUID) bool { return a == b }
func vEqF64(a, b float64) bool    { return math.Float64bits(a) == math.Float64bits(b) }

func vGenSlice[T any](gen func() T) func() []T {
	return func() []T {
		n := verifIntRange("inner", verifParam("mininner", 0), verifParam("maxinner", 2))
		var r []T
		for i := 0; i < n; i++ {
			r = append(r, gen())
		}
		return r
	}
}

func vEqSlice[T any](eq func(a, b T) bool) func(a, b []T) bool {
	return func(a, b []T) bool {
		if len(a) != len(b) {
			return false
		}
		r := true
		for i := range a {
			r = vAnd(r, eq(a[i], b[i]))
		}
		return r
	}
}

func vGenNullable[T any](gen func() T) func() Nullable[T] {
	return func() Nullable[T] { return Nullable[T]{Set: verifBool("set"), Value: gen()} }
}

// a NULL has no logical payload: values are compared only when both are set
func vEqNullable[T any](eq func(a, b T) bool) func(a, b Nullable[T]) bool {
	return func(a, b Nullable[T]) bool {
		return vAnd(a.Set == b.Set, vOr(vNot(a.Set), eq(a.Value, b.Value)))
	}
}

type vEntry struct {
	name string
	run  func()
}

var vPlainLeaves = []vEntry{
	{"String", func() { vOfLeaf("String", true, func() ColumnOf[string] { return new(ColStr) }, vGenStr, vStrEq) }},
	{"Bytes", func() { vOfLeaf("Bytes", false, func() ColumnOf[[]byte] { return new(ColBytes) }, vGenBytes, vBytesEq) }},
	{"Bool", func() {
		vOfLeaf("Bool", true, func() ColumnOf[bool] { return new(ColBool) }, func() bool { return verifBool("v") }, func(a, b bool) bool { return a == b })
	}},
	{"UUID", func() { vOfLeaf("UUID", true, func() ColumnOf[uuid.UUID] { return new(ColUUID) }, vGenUUID, vEqUUID) }},
	{"FixedString(1)", func() {
		vOfLeaf("FixedString(1)", false, func() ColumnOf[[]byte] { return &ColFixedStr{Size: 1} }, func() []byte { return verifBytes("v", 1) }, vBytesEq)
	}},
	{"FixedString(3)", func() {
		vOfLeaf("FixedString(3)", false, func() ColumnOf[[]byte] { return &ColFixedStr{Size: 3} }, func() []byte { return verifBytes("v", 3) }, vBytesEq)
	}},
	{"Nothing", func() {
		vOfLeaf("Nothing", true, func() ColumnOf[Nothing] { return new(ColNothing) }, func() Nothing { return Nothing{} }, func(a, b Nothing) bool { return true })
	}},
	{"Point", func() {
		vOfLeaf("Point", false, func() ColumnOf[Point] { return new(ColPoint) },
			func() Point {
				return Point{X: math.Float64frombits(verifU64("x")), Y: math.Float64frombits(verifU64("y"))}
			},
			func(a, b Point) bool { return vAnd(vEqF64(a.X, b.X), vEqF64(a.Y, b.Y)) })
	}},
	{"Enum8", func() {
		vOfLeaf("Enum8", true, func() ColumnOf[string] {
			e := new(ColEnum)
			if err := e.Infer("Enum8('a'=1,'b'=-2)"); err != nil {
				verifFail("enum-infer")
			}
			return e
		}, func() string { return [2]string{"a", "b"}[verifChoice("enumval", 2)] }, vStrEq)
	}},
	{"Enum16", func() {
		vOfLeaf("Enum16", true, func() ColumnOf[string] {
			e := new(ColEnum)
			if err := e.Infer("Enum16('a' = 300, 'b' = 2)"); err != nil {
				verifFail("enum-infer")
			}
			return e
		}, func() string { return [2]string{"a", "b"}[verifChoice("enumval", 2)] }, vStrEq)
	}},
	// names are taken verbatim between the quotes: blanks inside them are significant (seed C01e)
	{"Enum8(blanks)", func() {
		vOfLeaf("Enum8", true, func() ColumnOf[string] {
			e := new(ColEnum)
			if err := e.Infer("Enum8(' a' = 1, 'a' = 2, 'b ' = 3)"); err != nil {
				verifFail("enum-infer")
			}
			return e
		}, func() string {
			if vMode == 5 {
				return " a" // C16's histories multiply the value choices; one blank-edged name suffices there
			}
			return [3]string{" a", "a", "b "}[verifChoice("enumval", 3)]
		}, vStrEq)
	}},
}

// raw temporal columns (the time conversions themselves are C20's subject)
func vLeafDateTimeRaw() {
	vBlockRoundTrip(vLeafSpec[DateTime]{
		name: "DateTime",
		mk:   func() Column { return new(ColDateTime) },
		gen:  func() DateTime { return DateTime(verifU32("v")) },
		app:  func(c Column, v DateTime) { c.(*ColDateTime).AppendRaw(v) },
		row:  func(c Column, i int) DateTime { return c.(*ColDateTime).Data[i] },
		eq:   func(a, b DateTime) bool { return a == b },
		auto: func(c Column) (Column, bool) { _, ok := c.(*ColDateTime); return c, ok },
		emit: func(v DateTime) { verifEmitU64("row", uint64(v)) },
	})
}

func vLeafDateTime64Raw() {
	p := Precision(verifIntRange("precision", verifParam("minprec", 0), verifParam("maxprec", 9)))
	vBlockRoundTrip(vLeafSpec[DateTime64]{
		name: "DateTime64",
		mk:   func() Column { return new(ColDateTime64).WithPrecision(p) },
		gen:  func() DateTime64 { return DateTime64(verifI64("v")) },
		app:  func(c Column, v DateTime64) { c.(*ColDateTime64).AppendRaw(v) },
		row:  func(c Column, i int) DateTime64 { return c.(*ColDateTime64).Data[i] },
		eq:   func(a, b DateTime64) bool { return a == b },
		auto: func(c Column) (Column, bool) { _, ok := c.(*ColDateTime64); return c, ok },
		emit: func(v DateTime64) { verifEmitU64("row", uint64(v)) },
	})
}

func vLeafInterval() {
	scale := IntervalScale(verifIntRange("scale", verifParam("minscale", int(IntervalSecond)), verifParam("maxscale", int(IntervalYear))))
	vBlockRoundTrip(vLeafSpec[Interval]{
		name: "Interval",
		mk:   func() Column { return &ColInterval{Scale: scale} },
		gen:  func() Interval { return Interval{Scale: scale, Value: verifI64("v")} },
		app:  func(c Column, v Interval) { c.(*ColInterval).Append(v) },
		row:  func(c Column, i int) Interval { return c.(*ColInterval).Row(i) },
		eq:   func(a, b Interval) bool { return vAnd(a.Scale == b.Scale, a.Value == b.Value) },
		auto: func(c Column) (Column, bool) { _, ok := c.(*ColInterval); return c, ok },
	})
}

// VerifC01PlainLeaves: the hand-written leaf columns.
func VerifC01PlainLeaves() {
	k := verifParam("type", -1)
	if k < 0 {
		k = verifChoice("type", len(vPlainLeaves)+3)
	}
	switch {
	case k < len(vPlainLeaves):
		vPlainLeaves[k].run()
	case k == len(vPlainLeaves):
		vLeafDateTimeRaw()
	case k == len(vPlainLeaves)+1:
		vLeafDateTime64Raw()
	default:
		vLeafInterval()
	}
}

var vComposites = []vEntry{
	{"Array(UInt64)", func() {
		vOfLeaf("Array(UInt64)", true, func() ColumnOf[[]uint64] { return new(ColUInt64).Array() }, vGenSlice(vGenU64), vEqSlice(vEqU64))
	}},
	{"Array(UInt8)", func() {
		vOfLeaf("Array(UInt8)", true, func() ColumnOf[[]uint8] { return new(ColUInt8).Array() }, vGenSlice(vGenU8), vEqSlice(vEqU8))
	}},
	{"Array(String)", func() {
		vOfLeaf("Array(String)", true, func() ColumnOf[[]string] { return new(ColStr).Array() }, vGenSlice(vGenStr), vEqSlice(vStrEq))
	}},
	{"Array(UUID)", func() {
		vOfLeaf("Array(UUID)", true, func() ColumnOf[[]uuid.UUID] { return new(ColUUID).Array() }, vGenSlice(vGenUUID), vEqSlice(vEqUUID))
	}},
	{"Nullable(UInt64)", func() {
		vOfLeaf("Nullable(UInt64)", true, func() ColumnOf[Nullable[uint64]] { return new(ColUInt64).Nullable() }, vGenNullable(vGenU64), vEqNullable(vEqU64))
	}},
	{"Nullable(String)", func() {
		vOfLeaf("Nullable(String)", true, func() ColumnOf[Nullable[string]] { return new(ColStr).Nullable() }, vGenNullable(vGenStr), vEqNullable(vStrEq))
	}},
	{"Nullable(UUID)", func() {
		vOfLeaf("Nullable(UUID)", true, func() ColumnOf[Nullable[uuid.UUID]] { return new(ColUUID).Nullable() }, vGenNullable(vGenUUID), vEqNullable(vEqUUID))
	}},
	{"LowCardinality(String)", func() {
		vOfLeaf("LowCardinality(String)", true, func() ColumnOf[string] { return new(ColStr).LowCardinality() }, vGenStr, vStrEq)
	}},
	{"LowCardinality(UInt64)", func() {
		vOfLeaf("LowCardinality(UInt64)", true, func() ColumnOf[uint64] { return new(ColUInt64).LowCardinality() }, vGenU64, vEqU64)
	}},
	{"LowCardinality(UInt8)", func() {
		vOfLeaf("LowCardinality(UInt8)", true, func() ColumnOf[uint8] { return new(ColUInt8).LowCardinality() }, vGenU8, vEqU8)
	}},
	{"Array(Nullable(UInt64))", func() {
		vOfLeaf("Array(Nullable(UInt64))", true, func() ColumnOf[[]Nullable[uint64]] { return new(ColUInt64).Nullable().Array() }, vGenSlice(vGenNullable(vGenU64)), vEqSlice(vEqNullable(vEqU64)))
	}},
	{"Array(LowCardinality(String))", func() {
		vOfLeaf("Array(LowCardinality(String))", true, func() ColumnOf[[]string] { return new(ColStr).LowCardinality().Array() }, vGenSlice(vGenStr), vEqSlice(vStrEq))
	}},
	{"Array(Array(UInt8))", func() {
		vOfLeaf("Array(Array(UInt8))", false /* ColArr has no Array(): nested arrays are not inferable */, func() ColumnOf[[][]uint8] { return NewArray[[]uint8](new(ColUInt8).Array()) }, vGenSlice(vGenSlice(vGenU8)), vEqSlice(vEqSlice(vEqU8)))
	}},
	{"Map(String,UInt64)", func() { vMapRoundTrip() }},
	{"Tuple(UInt64,String)", func() { vTupleRoundTrip() }},
	// temporal columns through their time.Time API (Append / AppendArr / Row), plain and inside an array
	{"DateTime(time.Time)", func() {
		vOfLeaf("DateTime", true, func() ColumnOf[time.Time] { return new(ColDateTime) }, vGenTime, vEqTime)
	}},
	{"Array(DateTime)", func() {
		vOfLeaf("Array(DateTime)", true, func() ColumnOf[[]time.Time] { return new(ColDateTime).Array() }, vGenSlice(vGenTime), vEqSlice(vEqTime))
	}},
}

func vGenTime() time.Time         { return time.Unix(int64(verifU32("t")), 0).UTC() }
func vEqTime(a, b time.Time) bool { return a.Unix() == b.Unix() }

// Map via AppendKV / RowKV (Go map iteration order is outside the claim).
func vMapRoundTrip() {
	type kv = KV[string, uint64]
	gen := func() []kv {
		n := verifIntRange("inner", verifParam("mininner", 0), verifParam("maxinner", 2))
		var r []kv
		for i := 0; i < n; i++ {
			r = append(r, kv{Key: vGenStr(), Value: vGenU64()})
		}
		return r
	}
	eq := func(a, b []kv) bool {
		if len(a) != len(b) {
			return false
		}
		r := true
		for i := range a {
			r = vAnd(r, vAnd(vStrEq(a[i].Key, b[i].Key), a[i].Value == b[i].Value))
		}
		return r
	}
	vBlockRoundTrip(vLeafSpec[[]kv]{
		name: "Map(String,UInt64)",
		mk:   func() Column { return NewMap[string, uint64](new(ColStr), new(ColUInt64)) },
		gen:  gen,
		app:  func(c Column, v []kv) { c.(*ColMap[string, uint64]).AppendKV(v) },
		row:  func(c Column, i int) []kv { return c.(*ColMap[string, uint64]).RowKV(i) },
		eq:   eq,
	})
}

type vPair struct {
	a uint64
	b string
}

func vTupleRoundTrip() {
	vBlockRoundTrip(vLeafSpec[vPair]{
		name: "Tuple(UInt64, String)",
		mk:   func() Column { return ColTuple{new(ColUInt64), new(ColStr)} },
		gen:  func() vPair { return vPair{a: vGenU64(), b: vGenStr()} },
		app: func(c Column, v vPair) {
			t := c.(ColTuple)
			t[0].(*ColUInt64).Append(v.a)
			t[1].(*ColStr).Append(v.b)
		},
		row: func(c Column, i int) vPair {
			t := c.(ColTuple)
			return vPair{a: t[0].(*ColUInt64).Row(i), b: t[1].(*ColStr).Row(i)}
		},
		eq: func(x, y vPair) bool { return vAnd(x.a == y.a, vStrEq(x.b, y.b)) },
	})
}

// VerifC01Composites: Array / Nullable / LowCardinality / Map / Tuple up to depth 2.
func VerifC01Composites() {
	k := verifParam("type", -1)
	if k < 0 {
		k = verifChoice("type", len(vComposites))
	}
	vComposites[k].run()
}

// VerifC01Boundaries: shapes at the size boundaries the generic harness does not reach -
// LowCardinality dictionaries around the 8-bit key limit (and, in the thorough tier, the 16-bit
// one), strings around the 1- and 2-byte varint length limits and the String batch-allocation
// threshold. Dictionary values are concrete and pairwise distinct (the shape is the subject);
// string contents are symbolic.
func VerifC01Boundaries() {
	switch verifChoice("case", 3) {
	case 0:
		ns := []int{254, 255, 256, 257}
		if verifParam("bigdict", 0) == 1 {
			ns = append(ns, 65534, 65535, 65536, 65537)
		}
		n := ns[verifChoice("dict", len(ns))]
		extra := uint64(8) // rows beyond the distinct ones repeat the first value
		next := 0
		vOfLeaf("LowCardinality(UInt64)", true, func() ColumnOf[uint64] { return new(ColUInt64).LowCardinality() },
			func() uint64 {
				next++
				if next > n {
					return extra
				}
				return uint64(next)*7 + 1
			}, vEqU64)
	case 1:
		ls := []int{127, 128}
		if verifParam("bigstr", 0) == 1 {
			ls = append(ls, 16383, 16384)
		}
		l := ls[verifChoice("strlen", len(ls))]
		vOfLeaf("String", true, func() ColumnOf[string] { return new(ColStr) }, func() string { return verifStr("s", l) }, vStrEq)
	case 2:
		ns := []int{254, 255, 256, 257}
		n := ns[verifChoice("dict", len(ns))]
		next := 0
		vOfLeaf("LowCardinality(String)", true, func() ColumnOf[string] { return new(ColStr).LowCardinality() },
			func() string {
				next++
				k := next % (n + 1)
				return string([]byte{'k', byte(k), byte(k >> 8)})
			}, vStrEq)
	}
}
