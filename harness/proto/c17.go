//go:build verif

package proto

import (
	"io"

	"go.opentelemetry.io/otel/trace"
)

// vExhausted reports whether the reader has no byte left.
func vExhausted(r *Reader) bool {
	_, err := r.ReadByte()
	return err == io.EOF || err != nil
}

// vSmall constrains x to a one-byte varint unless this field is the wide one.
func vSmallU(x uint64, wide bool) {
	if !wide {
		verifAssume(x < 128)
	}
}

func vSmallI(x int, wide bool) {
	if !wide {
		verifAssume(x >= 0 && x < 128)
	}
}

func vStrLen(label string) int { return verifIntRange(label, 0, verifParam("maxstr", 2)) }

// VerifC17UVarInt: uvarint encode/decode over the whole uint64 domain.
func VerifC17UVarInt() {
	x := verifU64("x")
	var b Buffer
	pre := verifBytes("pre", verifIntRange("prelen", 0, 2))
	b.Buf = append(b.Buf, pre...)
	b.PutUVarInt(x)
	var ref refBuf
	ref.b = append(ref.b, pre...)
	ref.uv(x)
	verifAssert(vBytesEq(b.Buf, ref.b), "uvarint-enc==ref")
	b.Buf = b.Buf[len(pre):]
	r := b.Reader()
	y, err := r.UVarInt()
	verifAssert(err == nil, "uvarint-dec-ok")
	verifAssert(y == x, "uvarint-roundtrip")
	verifAssert(vExhausted(r), "uvarint-exhausted")
	verifObserveU64("len", uint64(len(b.Buf)))
}

// VerifC17Fixed: fixed-width primitives and strings.
func VerifC17Fixed() {
	var b Buffer
	var ref refBuf
	u8, u16, u32, u64 := verifU8("u8"), verifU16("u16"), verifU32("u32"), verifU64("u64")
	i8, i16, i32, i64 := verifI8("i8"), verifI16("i16"), verifI32("i32"), verifI64("i64")
	bo := verifBool("bool")
	u128 := UInt128{Low: verifU64("lo"), High: verifU64("hi")}
	s := verifStr("s", vStrLen("slen"))
	n := verifInt("int")
	verifAssume(n >= 0 && n < 128)
	b.PutUInt8(u8)
	b.PutUInt16(u16)
	b.PutUInt32(u32)
	b.PutUInt64(u64)
	b.PutInt8(i8)
	b.PutInt16(i16)
	b.PutInt32(i32)
	b.PutInt64(i64)
	b.PutBool(bo)
	b.PutUInt128(u128)
	b.PutString(s)
	b.PutInt(n)
	b.PutLen(len(s))
	ref.u8(u8)
	ref.u16(u16)
	ref.u32(u32)
	ref.u64(u64)
	ref.u8(uint8(i8))
	ref.u16(uint16(i16))
	ref.u32(uint32(i32))
	ref.u64(uint64(i64))
	ref.boolean(bo)
	ref.u64(u128.Low)
	ref.u64(u128.High)
	ref.str(s)
	ref.vint(n)
	ref.vint(len(s))
	verifAssert(vBytesEq(b.Buf, ref.b), "fixed-enc==ref")
	r := b.Reader()
	g8, e1 := r.UInt8()
	g16, e2 := r.UInt16()
	g32, e3 := r.UInt32()
	g64, e4 := r.UInt64()
	h8, e5 := r.Int8()
	h16, e6 := r.Int16()
	h32, e7 := r.Int32()
	h64, e8 := r.Int64()
	gb, e9 := r.Bool()
	g128, e10 := r.UInt128()
	gs, e11 := r.Str()
	gn, e12 := r.Int()
	gl, e13 := r.StrLen()
	ok := e1 == nil && e2 == nil && e3 == nil && e4 == nil && e5 == nil && e6 == nil && e7 == nil && e8 == nil && e9 == nil && e10 == nil && e11 == nil && e12 == nil && e13 == nil
	verifAssert(ok, "fixed-dec-ok")
	eq := vAnd(g8 == u8, vAnd(g16 == u16, vAnd(g32 == u32, vAnd(g64 == u64, vAnd(h8 == i8, vAnd(h16 == i16, vAnd(h32 == i32, h64 == i64)))))))
	eq = vAnd(eq, vAnd(gb == bo, vAnd(g128.Low == u128.Low, vAnd(g128.High == u128.High, vAnd(vStrEq(gs, s), vAnd(gn == n, gl == len(s)))))))
	verifAssert(eq, "fixed-roundtrip")
	verifAssert(vExhausted(r), "fixed-exhausted")
	verifObserveBytes("buf", b.Buf)
}

func VerifC17Progress() {
	v := verifInt("version")
	wide := verifChoice("wide", 7)
	p := Progress{Rows: verifU64("rows"), Bytes: verifU64("bytes"), TotalRows: verifU64("total"),
		WroteRows: verifU64("wrows"), WroteBytes: verifU64("wbytes"), ElapsedNs: verifU64("elapsed")}
	vSmallU(p.Rows, wide == 1)
	vSmallU(p.Bytes, wide == 2)
	vSmallU(p.TotalRows, wide == 3)
	vSmallU(p.WroteRows, wide == 4)
	vSmallU(p.WroteBytes, wide == 5)
	vSmallU(p.ElapsedNs, wide == 6)
	var b Buffer
	p.EncodeAware(&b, v)
	verifAssert(vBytesEq(b.Buf, refProgress(p, v)), "progress-enc==ref")
	r := b.Reader()
	var q Progress
	err := q.DecodeAware(r, v)
	verifAssert(err == nil, "progress-dec-ok")
	// fields absent at this revision decode as zero
	exp := p
	if v < refRevWriteInfo {
		exp.WroteRows, exp.WroteBytes = 0, 0
	}
	if v < refRevElapsedNs {
		exp.ElapsedNs = 0
	}
	verifAssert(q == exp, "progress-roundtrip")
	verifAssert(vExhausted(r), "progress-exhausted")
	verifObserveBytes("buf", b.Buf)
}

func VerifC17ClientHello() {
	wide := verifChoice("wide", 4)
	c := ClientHello{
		Name: verifStr("name", vStrLen("ln")), Major: verifInt("major"), Minor: verifInt("minor"), ProtocolVersion: verifInt("rev"),
		Database: verifStr("db", vStrLen("ld")), User: verifStr("user", vStrLen("lu")), Password: verifStr("pw", vStrLen("lp")),
	}
	vSmallI(c.Major, wide == 1)
	vSmallI(c.Minor, wide == 2)
	vSmallI(c.ProtocolVersion, wide == 3)
	var b Buffer
	c.Encode(&b)
	verifAssert(vBytesEq(b.Buf, refClientHello(c)), "clienthello-enc==ref")
	r := b.Reader()
	code, err := r.UVarInt()
	verifAssert(err == nil && code == 0, "clienthello-code")
	var d ClientHello
	err = d.Decode(r)
	verifAssert(err == nil, "clienthello-dec-ok")
	eq := vAnd(vStrEq(d.Name, c.Name), vAnd(d.Major == c.Major, vAnd(d.Minor == c.Minor, vAnd(d.ProtocolVersion == c.ProtocolVersion,
		vAnd(vStrEq(d.Database, c.Database), vAnd(vStrEq(d.User, c.User), vStrEq(d.Password, c.Password)))))))
	verifAssert(eq, "clienthello-roundtrip")
	verifAssert(vExhausted(r), "clienthello-exhausted")
	verifObserveBytes("buf", b.Buf)
}

func VerifC17ServerHello() {
	v := verifInt("version")
	wide := verifChoice("wide", 5)
	s := ServerHello{
		Name: verifStr("name", vStrLen("ln")), Major: verifInt("major"), Minor: verifInt("minor"), Revision: verifInt("rev"),
		Timezone: verifStr("tz", vStrLen("lt")), DisplayName: verifStr("dn", vStrLen("ld")), Patch: verifInt("patch"),
	}
	vSmallI(s.Major, wide == 1)
	vSmallI(s.Minor, wide == 2)
	vSmallI(s.Revision, wide == 3)
	vSmallI(s.Patch, wide == 4)
	var b Buffer
	s.EncodeAware(&b, v)
	verifAssert(vBytesEq(b.Buf, refServerHello(s, v)), "serverhello-enc==ref")
	r := b.Reader()
	code, err := r.UVarInt()
	verifAssert(err == nil && code == 0, "serverhello-code")
	var d ServerHello
	err = d.DecodeAware(r, v)
	verifAssert(err == nil, "serverhello-dec-ok")
	exp := s
	if v < refRevTimezone {
		exp.Timezone = ""
	}
	if v < refRevDisplayName {
		exp.DisplayName = ""
	}
	if v < refRevVersionPatch {
		exp.Patch = 0
	}
	eq := vAnd(vStrEq(d.Name, exp.Name), vAnd(d.Major == exp.Major, vAnd(d.Minor == exp.Minor, vAnd(d.Revision == exp.Revision,
		vAnd(vStrEq(d.Timezone, exp.Timezone), vAnd(vStrEq(d.DisplayName, exp.DisplayName), d.Patch == exp.Patch))))))
	verifAssert(eq, "serverhello-roundtrip")
	verifAssert(vExhausted(r), "serverhello-exhausted")
	verifObserveBytes("buf", b.Buf)
}

func VerifC17Profile() {
	v := verifInt("version")
	wide := verifChoice("wide", 5)
	p := Profile{Rows: verifU64("rows"), Blocks: verifU64("blocks"), Bytes: verifU64("bytes"), AppliedLimit: verifBool("al"),
		RowsBeforeLimit: verifU64("rbl"), CalculatedRowsBeforeLimit: verifBool("calc")}
	vSmallU(p.Rows, wide == 1)
	vSmallU(p.Blocks, wide == 2)
	vSmallU(p.Bytes, wide == 3)
	vSmallU(p.RowsBeforeLimit, wide == 4)
	var b Buffer
	p.EncodeAware(&b, v)
	verifAssert(vBytesEq(b.Buf, refProfile(p)), "profile-enc==ref")
	r := b.Reader()
	code, err := r.UVarInt()
	verifAssert(err == nil && code == 6, "profile-code")
	var q Profile
	err = q.DecodeAware(r, v)
	verifAssert(err == nil, "profile-dec-ok")
	verifAssert(q == p, "profile-roundtrip")
	verifAssert(vExhausted(r), "profile-exhausted")
	verifObserveBytes("buf", b.Buf)
}

func VerifC17Exception() {
	v := verifInt("version")
	e := Exception{Code: Error(verifI32("code")), Name: verifStr("name", vStrLen("ln")), Message: verifStr("msg", vStrLen("lm")),
		Stack: verifStr("stack", vStrLen("ls")), Nested: verifBool("nested")}
	var b Buffer
	e.EncodeAware(&b, v)
	verifAssert(vBytesEq(b.Buf, refException(e)), "exception-enc==ref")
	r := b.Reader()
	var d Exception
	err := d.DecodeAware(r, v)
	verifAssert(err == nil, "exception-dec-ok")
	eq := vAnd(d.Code == e.Code, vAnd(vStrEq(d.Name, e.Name), vAnd(vStrEq(d.Message, e.Message), vAnd(vStrEq(d.Stack, e.Stack), d.Nested == e.Nested))))
	verifAssert(eq, "exception-roundtrip")
	verifAssert(vExhausted(r), "exception-exhausted")
	verifObserveBytes("buf", b.Buf)
}

func VerifC17TableColumns() {
	v := verifInt("version")
	c := TableColumns{First: verifStr("a", vStrLen("la")), Second: verifStr("b", vStrLen("lb"))}
	var b Buffer
	c.EncodeAware(&b, v)
	verifAssert(vBytesEq(b.Buf, refTableColumns(c)), "tablecolumns-enc==ref")
	r := b.Reader()
	code, err := r.UVarInt()
	verifAssert(err == nil && code == 11, "tablecolumns-code")
	var d TableColumns
	err = d.DecodeAware(r, v)
	verifAssert(err == nil, "tablecolumns-dec-ok")
	verifAssert(vAnd(vStrEq(d.First, c.First), vStrEq(d.Second, c.Second)), "tablecolumns-roundtrip")
	verifAssert(vExhausted(r), "tablecolumns-exhausted")
	verifObserveBytes("buf", b.Buf)
}

func VerifC17ClientData() {
	v := verifInt("version")
	c := ClientData{TableName: verifStr("t", vStrLen("lt"))}
	var b Buffer
	c.EncodeAware(&b, v)
	verifAssert(vBytesEq(b.Buf, refClientData(c, v)), "clientdata-enc==ref")
	r := b.Reader()
	var d ClientData
	err := d.DecodeAware(r, v)
	verifAssert(err == nil, "clientdata-dec-ok")
	exp := c.TableName
	if v < refRevTempTables {
		exp = ""
	}
	verifAssert(vStrEq(d.TableName, exp), "clientdata-roundtrip")
	verifAssert(vExhausted(r), "clientdata-exhausted")
	verifObserveBytes("buf", b.Buf)
}

func VerifC17BlockHeader() {
	v := verifInt("version")
	wide := verifChoice("wide", 3)
	blk := Block{Info: BlockInfo{Overflows: verifBool("ovf"), BucketNum: int(verifI32("bucket"))}, Columns: verifInt("cols"), Rows: verifInt("rows")}
	vSmallI(blk.Columns, wide == 1)
	vSmallI(blk.Rows, wide == 2)
	var b Buffer
	blk.EncodeAware(&b, v)
	verifAssert(vBytesEq(b.Buf, refBlockHeader(blk, v)), "blockheader-enc==ref")
	r := b.Reader()
	// decoding side of the header as DecodeRawBlock does it
	var d Block
	var err error
	if FeatureBlockInfo.In(v) {
		err = d.Info.Decode(r)
		verifAssert(err == nil, "blockinfo-dec-ok")
	}
	c, e1 := r.Int()
	n, e2 := r.Int()
	verifAssert(e1 == nil && e2 == nil, "blockheader-dec-ok")
	exp := blk.Info
	if v < refRevBlockInfo {
		exp = BlockInfo{}
	}
	verifAssert(vAnd(d.Info == exp, vAnd(c == blk.Columns, n == blk.Rows)), "blockheader-roundtrip")
	verifAssert(vExhausted(r), "blockheader-exhausted")
	verifObserveBytes("buf", b.Buf)
}

// VerifC17Query: Query with client info, settings and parameters at every revision.
func VerifC17Query() {
	v := verifInt("version")
	wide := verifChoice("wide", verifParam("nwide", 10))
	sl := vStrLen("strlen") // all strings share one length (tied); contents are free
	ci := ClientInfo{
		ProtocolVersion: verifInt("ci.rev"), Major: verifInt("ci.major"), Minor: verifInt("ci.minor"), Patch: verifInt("ci.patch"),
		Interface: InterfaceTCP, Query: ClientQueryKind(verifU8("ci.kind")),
		InitialUser: verifStr("ci.user", sl), InitialQueryID: verifStr("ci.qid", sl), InitialAddress: verifStr("ci.addr", sl),
		InitialTime: verifI64("ci.time"), OSUser: verifStr("ci.os", sl), ClientHostname: verifStr("ci.host", sl),
		ClientName: verifStr("ci.name", sl), QuotaKey: verifStr("ci.quota", sl), DistributedDepth: verifInt("ci.depth"),
		CollaborateWithInitiator: verifBool("ci.collab"), CountParticipatingReplicas: verifInt("ci.replicas"), NumberOfCurrentReplica: verifInt("ci.replica"),
	}
	verifAssume(ci.Query <= 2)
	vSmallI(ci.ProtocolVersion, wide == 1)
	vSmallI(ci.Major, wide == 2)
	vSmallI(ci.Minor, wide == 3)
	vSmallI(ci.Patch, wide == 4)
	vSmallI(ci.DistributedDepth, wide == 5)
	vSmallI(ci.CountParticipatingReplicas, wide == 6)
	vSmallI(ci.NumberOfCurrentReplica, wide == 7)
	q := Query{ID: verifStr("id", sl), Body: verifStr("body", sl), Secret: verifStr("secret", sl),
		Stage: StageComplete, Compression: Compression(verifChoice("compression", 2)), Info: ci}
	ns := verifIntRange("nsettings", 0, verifParam("maxsettings", 1))
	for i := 0; i < ns; i++ {
		q.Settings = append(q.Settings, Setting{Key: verifStr("skey", 1+verifIntRange("lsk", 0, verifParam("maxkey", 1))), Value: verifStr("sval", sl),
			Important: verifBool("simp"), Custom: verifBool("scust"), Obsolete: vAnd(verifBool("sobs"), verifParam("obsolete", 1) == 1)})
	}
	np := verifIntRange("nparams", 0, verifParam("maxparams", 1))
	for i := 0; i < np; i++ {
		q.Parameters = append(q.Parameters, Parameter{Key: verifStr("pkey", 1+verifIntRange("lpk", 0, verifParam("maxkey", 1))), Value: verifStr("pval", sl)})
	}
	var b Buffer
	q.EncodeAware(&b, v)
	verifAssert(vBytesEq(b.Buf, refQuery(q, v)), "query-enc==ref")
	if v < refRevSettingsStrings {
		// the library documents "unsupported version" on the decoding side below this revision
		verifNote("query-decode-below-54429-skipped")
		return
	}
	r := b.Reader()
	code, err := r.UVarInt()
	verifAssert(err == nil && code == 1, "query-code")
	var d Query
	err = d.DecodeAware(r, v)
	verifAssert(err == nil, "query-dec-ok")
	exp := q
	if v < refRevSecret {
		exp.Secret = ""
	}
	if v < refRevParameters {
		exp.Parameters = nil
	}
	if v < refRevQueryStartTime {
		exp.Info.InitialTime = 0
	}
	if v < refRevDistDepth {
		exp.Info.DistributedDepth = 0
	}
	if v < refRevParallelRepl {
		exp.Info.CollaborateWithInitiator, exp.Info.CountParticipatingReplicas, exp.Info.NumberOfCurrentReplica = false, 0, 0
	}
	eq := vAnd(vStrEq(d.ID, exp.ID), vAnd(vStrEq(d.Body, exp.Body), vAnd(vStrEq(d.Secret, exp.Secret), vAnd(d.Stage == exp.Stage, d.Compression == exp.Compression))))
	di, ei := d.Info, exp.Info
	eq = vAnd(eq, vAnd(di.ProtocolVersion == ei.ProtocolVersion, vAnd(di.Major == ei.Major, vAnd(di.Minor == ei.Minor, vAnd(di.Patch == ei.Patch,
		vAnd(di.Interface == ei.Interface, di.Query == ei.Query))))))
	eq = vAnd(eq, vAnd(vStrEq(di.InitialUser, ei.InitialUser), vAnd(vStrEq(di.InitialQueryID, ei.InitialQueryID), vAnd(vStrEq(di.InitialAddress, ei.InitialAddress),
		vAnd(di.InitialTime == ei.InitialTime, vAnd(vStrEq(di.OSUser, ei.OSUser), vAnd(vStrEq(di.ClientHostname, ei.ClientHostname), vStrEq(di.ClientName, ei.ClientName))))))))
	eq = vAnd(eq, vAnd(vStrEq(di.QuotaKey, ei.QuotaKey), vAnd(di.DistributedDepth == ei.DistributedDepth, vAnd(di.CollaborateWithInitiator == ei.CollaborateWithInitiator,
		vAnd(di.CountParticipatingReplicas == ei.CountParticipatingReplicas, di.NumberOfCurrentReplica == ei.NumberOfCurrentReplica)))))
	verifAssert(eq, "query-roundtrip-fields")
	verifAssert(len(d.Settings) == len(exp.Settings) && len(d.Parameters) == len(exp.Parameters), "query-roundtrip-counts")
	seq := true
	for i := range exp.Settings {
		a, e := d.Settings[i], exp.Settings[i]
		seq = vAnd(seq, vAnd(vStrEq(a.Key, e.Key), vAnd(vStrEq(a.Value, e.Value), vAnd(a.Important == e.Important, vAnd(a.Custom == e.Custom, a.Obsolete == e.Obsolete)))))
	}
	for i := range exp.Parameters {
		a, e := d.Parameters[i], exp.Parameters[i]
		seq = vAnd(seq, vAnd(vStrEq(a.Key, e.Key), vStrEq(a.Value, e.Value)))
	}
	verifAssert(seq, "query-roundtrip-settings-params")
	verifAssert(vExhausted(r), "query-exhausted")
	verifObserveBytes("buf", b.Buf)
}

// VerifC17Span: a client info carrying a valid OpenTelemetry span context (any trace id, span id
// and flags byte) is written as the reference says and read back unchanged, at every revision.
func VerifC17Span() {
	v := verifInt("version")
	var cfg trace.SpanContextConfig
	ids := verifBytes("ids", 24)
	copy(cfg.TraceID[:], ids[:16])
	copy(cfg.SpanID[:], ids[16:])
	verifAssume(vAnd(cfg.TraceID[verifIntRange("tnz", 0, 1)*15] != 0, cfg.SpanID[verifIntRange("snz", 0, 1)*7] != 0)) // valid: not all zero
	cfg.TraceFlags = trace.TraceFlags(verifU8("flags"))
	ci := ClientInfo{ProtocolVersion: 54460, Major: 1, Minor: 2, Patch: 3, Interface: InterfaceTCP, Query: ClientQueryInitial,
		InitialUser: "u", InitialQueryID: "q", InitialAddress: "a", OSUser: "o", ClientHostname: "h", ClientName: "n",
		Span: trace.NewSpanContext(cfg)}
	verifAssert(ci.Span.IsValid(), "span-valid")
	var b Buffer
	ci.EncodeAware(&b, v)
	refSpan = &struct {
		ids   [24]byte
		flags byte
	}{flags: byte(cfg.TraceFlags)}
	copy(refSpan.ids[:], ids)
	var w refBuf
	refClientInfo(&w, ci, v)
	refSpan = nil
	verifAssert(vBytesEq(b.Buf, w.b), "span-enc==ref")
	var d ClientInfo
	r := b.Reader()
	err := d.DecodeAware(r, v)
	verifAssert(err == nil, "span-dec-ok")
	if v >= refRevOpenTelemetry {
		verifAssert(d.Span.IsValid(), "span-decoded-valid")
		verifAssert(vAnd(d.Span.TraceID() == cfg.TraceID, vAnd(d.Span.SpanID() == cfg.SpanID, d.Span.TraceFlags() == cfg.TraceFlags)), "span-roundtrip")
	} else {
		verifAssert(!d.Span.IsValid(), "span-absent-before-54442")
	}
	verifAssert(vExhausted(r), "span-exhausted")
	verifObserveBytes("buf", b.Buf)
}
