//go:build verif

package proto

import "bytes"

// vLeafSpec describes one column type for the block round-trip harness.
type vLeafSpec[T any] struct {
	name string
	mk   func() Column
	gen  func() T
	app  func(c Column, v T)
	row  func(c Column, i int) T
	eq   func(a, b T) bool
	// cast turns the column produced by inference into one `row` understands (nil: not inferable)
	auto func(c Column) (Column, bool)
}

var vPrefixLens = [3]int{0, 3, 8}

// vBlockRoundTrip is the C01 oracle for one column:
//  (a) encoding after m arbitrary bytes leaves them untouched and appends exactly the bytes produced for an empty buffer;
//  (b) typed decode returns the appended values, the row count and exhausts the reader;
//  (c) inferred decode (Results.Auto) yields the same name, type and values;
//  (d) block header as sent.
func vBlockRoundTrip[T any](l vLeafSpec[T]) {
	n := verifIntRange("rows", 0, verifParam("maxrows", 3))
	m := vPrefixLens[verifChoice("prefix", 3)]
	version := verifInt("version")
	in := l.mk()
	vals := make([]T, n)
	for i := range vals {
		vals[i] = l.gen()
		l.app(in, vals[i])
	}
	verifAssert(in.Rows() == n, "rows-after-append")
	input := []InputColumn{{Name: "c", Data: in}}
	blk := Block{Columns: 1, Rows: n}

	pre := verifBytes("pre", m)
	var b Buffer
	b.Buf = append(b.Buf, pre...)
	err := blk.EncodeBlock(&b, version, input)
	verifAssert(err == nil, "encode-ok")
	verifAssert(vBytesEq(b.Buf[:m], pre), "prefix-untouched")
	var b0 Buffer
	err = blk.EncodeBlock(&b0, version, input)
	verifAssert(err == nil, "encode-again-ok")
	verifAssert(vBytesEq(b.Buf[m:], b0.Buf), "bytes-independent-of-buffer")

	// (b) typed decode
	out := l.mk()
	r := NewReader(bytes.NewReader(b0.Buf))
	var d Block
	err = d.DecodeBlock(r, version, Results{{Name: "c", Data: out}})
	verifAssert(err == nil, "typed-decode-ok")
	verifAssert(d.Rows == n && d.Columns == 1, "block-header")
	verifAssert(out.Rows() == n, "typed-rows")
	eq := true
	for i := 0; i < n && i < out.Rows(); i++ {
		eq = vAnd(eq, l.eq(l.row(out, i), vals[i]))
	}
	verifAssert(eq, "typed-values")
	verifAssert(vExhausted(r), "typed-exhausted")

	// (c) inferred decode
	if l.auto != nil {
		var res Results
		r2 := NewReader(bytes.NewReader(b0.Buf))
		var d2 Block
		err = d2.DecodeBlock(r2, version, res.Auto())
		verifAssert(err == nil, "auto-decode-ok")
		verifAssert(len(res) == 1 && d2.Rows == n, "auto-shape")
		if len(res) == 1 {
			verifAssert(res[0].Name == "c", "auto-name")
			verifAssert(res[0].Data.Type() == in.Type(), "auto-type")
			got, ok := l.auto(res[0].Data.(Column))
			verifAssert(ok, "auto-column-kind")
			if ok {
				verifAssert(got.Rows() == n, "auto-rows")
				eq := true
				for i := 0; i < n && i < got.Rows(); i++ {
					eq = vAnd(eq, l.eq(l.row(got, i), vals[i]))
				}
				verifAssert(eq, "auto-values")
			}
		}
		verifAssert(vExhausted(r2), "auto-exhausted")
	}
	verifObserveBytes("wire", b0.Buf)
}

// vSliceLeaf instantiates the harness for a generated `type ColX []X` column.
func vSliceLeaf[T any, C ~[]T, PC interface {
	*C
	Column
}](name string, inferable bool, gen func() T, eq func(a, b T) bool) {
	// inferable=false: the column's own type string (bare "Enum8"/"Enum16") is not a
	// server type, so there is nothing to infer it from.
	auto := func(c Column) (Column, bool) { _, ok := c.(PC); return c, ok }
	if !inferable {
		auto = nil
	}
	vBlockRoundTrip(vLeafSpec[T]{
		name: name,
		mk:   func() Column { return PC(new(C)) },
		gen:  gen,
		app:  func(c Column, v T) { p := (*C)(c.(PC)); *p = append(*p, v) },
		row:  func(c Column, i int) T { return (*(*C)(c.(PC)))[i] },
		eq:   eq,
		auto: auto,
	})
}

// VerifC01GenLeaves: the 32 generated fixed-width column types.
func VerifC01GenLeaves() {
	k := verifChoice("type", len(vGenLeaves))
	vGenLeaves[k].run()
}
