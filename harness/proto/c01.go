//go:build verif

package proto

import (
	"bytes"

	"github.com/google/uuid"
)

// vLeafSpec describes one column type for the block round-trip harness.
type vLeafSpec[T any] struct {
	name string
	mk   func() Column
	gen  func() T
	app  func(c Column, v T)
	// appArr appends several values in one call (nil: the column has no bulk append)
	appArr func(c Column, vs []T)
	row    func(c Column, i int) T
	eq     func(a, b T) bool
	// cast turns the column produced by inference into one `row` understands (nil: not inferable)
	auto func(c Column) (Column, bool)
	// emit publishes a decoded value for a dual (two-program) comparison
	emit func(v T)
}

var vPrefixLens = [3]int{0, 3, 8}

// vMode selects what vBlockRoundTrip asserts about the column it is given:
// 0 = C01 round trip, 1 = C07 truncation, 2 = C14 vectored path == buffered path.
var vMode int

// vBlockRoundTrip is the C01 oracle for one column:
//
//	(a) encoding after m arbitrary bytes leaves them untouched and appends exactly the bytes produced for an empty buffer;
//	(b) typed decode returns the appended values, the row count and exhausts the reader;
//	(c) inferred decode (Results.Auto) yields the same name, type and values;
//	(d) block header as sent.
func vBlockRoundTrip[T any](l vLeafSpec[T]) {
	if vMode == 3 {
		vCodecDual(l)
		return
	}
	if vMode == 4 {
		vHostileColumn(l)
		return
	}
	if vMode == 5 {
		vHistory(l)
		return
	}
	n := verifIntRange("rows", verifParam("minrows", 0), verifParam("maxrows", 3))
	m := 0
	if vMode == 0 {
		m = vPrefixLens[verifChoice("prefix", 3)]
	}
	version := verifInt("version")
	in := l.mk()
	vals := make([]T, n)
	for i := range vals {
		vals[i] = l.gen()
		l.app(in, vals[i])
	}
	verifAssert(in.Rows() == n, "rows-after-append")
	input := []InputColumn{{Name: "c", Data: in}}
	blk := Block{Columns: 1, Rows: n}

	pre := verifBytes("pre", m)
	var b Buffer
	b.Buf = append(b.Buf, pre...)
	err := blk.EncodeBlock(&b, version, input)
	verifAssert(err == nil, "encode-ok")
	verifAssert(vBytesEq(b.Buf[:m], pre), "prefix-untouched")
	var b0 Buffer
	err = blk.EncodeBlock(&b0, version, input)
	verifAssert(err == nil, "encode-again-ok")
	verifAssert(vBytesEq(b.Buf[m:], b0.Buf), "bytes-independent-of-buffer")

	switch vMode {
	case 6:
		vSegmented(l, b0.Buf, version, vals)
		return
	case 1:
		vTruncated(l, b0.Buf, version)
		return
	case 2:
		sink := &vSink{failAfter: -1}
		w := NewWriter(sink, new(Buffer))
		err = blk.WriteBlock(w, version, input)
		verifAssert(err == nil, "writeblock-ok")
		_, err = w.Flush()
		verifAssert(err == nil, "writeblock-flush-ok")
		verifAssert(vBytesEq(sink.got, b0.Buf), "writeblock==encodeblock")
		// column level: WriteColumn vs EncodeColumn on the prepared column
		var cb Buffer
		in.EncodeColumn(&cb)
		sink2 := &vSink{failAfter: -1}
		w2 := NewWriter(sink2, new(Buffer))
		in.WriteColumn(w2)
		_, err = w2.Flush()
		verifAssert(err == nil, "writecolumn-flush-ok")
		verifAssert(vBytesEq(sink2.got, cb.Buf), "writecolumn==encodecolumn")
		verifObserveBytes("wire", sink.got)
		return
	}

	// (b) typed decode
	out := l.mk()
	r := NewReader(bytes.NewReader(b0.Buf))
	var d Block
	err = d.DecodeBlock(r, version, Results{{Name: "c", Data: out}})
	verifAssert(err == nil, "typed-decode-ok")
	verifAssert(d.Rows == n && d.Columns == 1, "block-header")
	verifAssert(out.Rows() == n, "typed-rows")
	eq := true
	for i := 0; i < n && i < out.Rows(); i++ {
		eq = vAnd(eq, l.eq(l.row(out, i), vals[i]))
	}
	verifAssert(eq, "typed-values")
	verifAssert(vExhausted(r), "typed-exhausted")
	if n == 0 {
		// a target that still holds rows of an earlier block must come out empty as well
		used := l.mk()
		l.app(used, l.gen())
		var du Block
		err = du.DecodeBlock(NewReader(bytes.NewReader(b0.Buf)), version, Results{{Name: "c", Data: used}})
		verifAssert(err == nil && used.Rows() == 0, "zero-row-block-clears-used-target")
	}

	// (c) inferred decode
	if l.auto != nil {
		var res Results
		r2 := NewReader(bytes.NewReader(b0.Buf))
		var d2 Block
		err = d2.DecodeBlock(r2, version, res.Auto())
		verifAssert(err == nil, "auto-decode-ok")
		verifAssert(len(res) == 1 && d2.Rows == n, "auto-shape")
		if len(res) == 1 {
			verifAssert(res[0].Name == "c", "auto-name")
			verifAssert(res[0].Data.Type() == in.Type(), "auto-type")
			got, ok := l.auto(res[0].Data.(Column))
			verifAssert(ok, "auto-column-kind")
			if ok {
				verifAssert(got.Rows() == n, "auto-rows")
				eq := true
				for i := 0; i < n && i < got.Rows(); i++ {
					eq = vAnd(eq, l.eq(l.row(got, i), vals[i]))
				}
				verifAssert(eq, "auto-values")
			}
		}
		verifAssert(vExhausted(r2), "auto-exhausted")
	}
	verifObserveBytes("wire", b0.Buf)
}

// vSliceLeaf instantiates the harness for a generated `type ColX []X` column.
func vSliceLeaf[T any, C ~[]T, PC interface {
	*C
	Column
}](name string, inferable bool, gen func() T, eq func(a, b T) bool, emit func(v T)) {
	// inferable=false: the column's own type string (bare "Enum8"/"Enum16") is not a
	// server type, so there is nothing to infer it from.
	auto := func(c Column) (Column, bool) { _, ok := c.(PC); return c, ok }
	if !inferable {
		auto = nil
	}
	vBlockRoundTrip(vLeafSpec[T]{
		name: name,
		mk:   func() Column { return PC(new(C)) },
		gen:  gen,
		app:  func(c Column, v T) { p := (*C)(c.(PC)); *p = append(*p, v) },
		row:  func(c Column, i int) T { return (*(*C)(c.(PC)))[i] },
		eq:   eq,
		auto: auto,
		emit: emit,
	})
}

// VerifC01GenLeaves: the 32 generated fixed-width column types.
func VerifC01GenLeaves() {
	k := verifChoice("type", len(vGenLeaves))
	vGenLeaves[k].run()
}

func VerifC07GenLeaves()   { vMode = 1; VerifC01GenLeaves() }
func VerifC07PlainLeaves() { vMode = 1; VerifC01PlainLeaves() }
func VerifC07Composites()  { vMode = 1; VerifC01Composites() }
func VerifC14GenLeaves()   { vMode = 2; VerifC01GenLeaves() }
func VerifC14PlainLeaves() { vMode = 2; VerifC01PlainLeaves() }
func VerifC14Composites()  { vMode = 2; VerifC01Composites() }

// vTruncated: every proper prefix of an encoded block is rejected (C07).
func vTruncated[T any](l vLeafSpec[T], wire []byte, version int) {
	if len(wire) == 0 {
		return
	}
	k := verifIntRange("cut", 0, len(wire)-1)
	out := l.mk()
	var d Block
	err := d.DecodeBlock(NewReader(bytes.NewReader(wire[:k])), version, Results{{Name: "c", Data: out}})
	verifAssert(err != nil, "typed-prefix-rejected")
	if l.auto != nil {
		var res Results
		var d2 Block
		err = d2.DecodeBlock(NewReader(bytes.NewReader(wire[:k])), version, res.Auto())
		verifAssert(err != nil, "auto-prefix-rejected")
	}
	verifObserveU64("cut", uint64(k))
}

// vCodecDual is run in the default and in the purego program on the same symbolic
// inputs (C15); everything it emits must be equal in both.
func vCodecDual[T any](l vLeafSpec[T]) {
	n := verifIntRange("rows", 0, verifParam("maxrows", 2))
	fill := func(c Column) {
		for i := 0; i < n; i++ {
			l.app(c, l.gen())
		}
	}
	switch verifChoice("op", 3) {
	case 0: // EncodeColumn after m arbitrary bytes
		m := vPrefixLens[verifChoice("prefix", 3)]
		c := l.mk()
		fill(c)
		var b Buffer
		b.Buf = append(b.Buf, verifBytes("pre", m)...)
		c.EncodeColumn(&b)
		verifEmitBytes("encoded", b.Buf)
	case 1: // WriteColumn + Flush
		c := l.mk()
		fill(c)
		sink := &vSink{failAfter: -1}
		w := NewWriter(sink, new(Buffer))
		w.ChainBuffer(func(b *Buffer) { b.PutRaw(verifBytes("pre", 1)) })
		c.WriteColumn(w)
		_, err := w.Flush()
		verifEmitBool("flush-err", err != nil)
		verifEmitBytes("written", sink.got)
	case 2: // DecodeColumn of arbitrary bytes into a fresh or reset column
		one := l.mk()
		l.app(one, l.gen())
		var eb Buffer
		one.EncodeColumn(&eb)
		esz := len(eb.Buf)
		avail := n * esz
		if n > 0 && verifChoice("short", 2) == 1 {
			avail--
		}
		data := verifBytes("in", avail)
		c := l.mk()
		if verifChoice("reused", 2) == 1 {
			l.app(c, l.gen())
			c.Reset()
		}
		err := c.DecodeColumn(NewReader(bytes.NewReader(data)), n)
		verifEmitBool("decode-err", err != nil)
		if err == nil {
			verifEmitU64("rows", uint64(c.Rows()))
			for i := 0; i < c.Rows(); i++ {
				l.emit(l.row(c, i))
			}
		}
	}
}

func VerifC15GenLeaves() { vMode = 3; VerifC01GenLeaves() }
func VerifC15BoolUUID() {
	vMode = 3
	switch verifChoice("type", 4) {
	case 0:
		vOfLeaf("Bool", true, func() ColumnOf[bool] { return new(ColBool) }, func() bool { return verifBool("v") }, func(a, b bool) bool { return a == b })
	case 1:
		vOfLeaf("UUID", true, func() ColumnOf[uuid.UUID] { return new(ColUUID) }, vGenUUID, vEqUUID)
	case 2:
		vLeafDateTimeRaw()
	case 3:
		vLeafDateTime64Raw()
	}
}

// vHostileColumn (C06): DecodeState+DecodeColumn of L arbitrary bytes never panics,
// never asks for memory beyond the by-design ceiling, and on success the column
// reports exactly `rows` rows and every Row(i) works.
func vHostileColumn[T any](l vLeafSpec[T]) {
	rows := verifIntRange("rows", 0, verifParam("maxrows", 2))
	data := verifBytes("in", verifParam("inlen", 10))
	c := l.mk()
	r := NewReader(bytes.NewReader(data))
	if s, ok := c.(StateDecoder); ok {
		if err := s.DecodeState(r); err != nil {
			verifNote("state-rejected")
			return
		}
	}
	err := c.DecodeColumn(r, rows)
	if err != nil {
		verifNote("column-rejected")
		return
	}
	verifAssert(c.Rows() == rows, "rows-consistent")
	for i := 0; i < rows && i < c.Rows(); i++ {
		_ = l.row(c, i)
	}
	verifNote("accepted")
	verifObserveU64("rows", uint64(c.Rows()))
}

func VerifC06GenLeaves()   { vMode = 4; VerifC01GenLeaves() }
func VerifC06PlainLeaves() { vMode = 4; VerifC01PlainLeaves() }
func VerifC06Composites()  { vMode = 4; VerifC01Composites() }

// vHistory (C16): after any history of appends, resets, encodes, decodes and failed
// decodes the column encodes exactly like a fresh column holding the model values.
func vHistory[T any](l vLeafSpec[T]) {
	version := 54460
	c := l.mk()
	var model []T
	check := func(label string) {
		verifAssert(c.Rows() == len(model), "rows==model")
		var b Buffer
		blk := Block{Columns: 1, Rows: len(model)}
		err := blk.EncodeRawBlock(&b, version, []InputColumn{{Name: "c", Data: c}})
		verifAssert(err == nil, "history-encode-ok")
		// read the produced bytes back into a fresh column and compare with the model
		fresh := l.mk()
		var d Block
		err = d.DecodeRawBlock(NewReader(bytes.NewReader(b.Buf)), version, Results{{Name: "c", Data: fresh}})
		verifAssert(err == nil, "readback-ok")
		eq := vAnd(d.Rows == len(model), fresh.Rows() == len(model))
		for i := 0; i < len(model) && i < fresh.Rows(); i++ {
			eq = vAnd(eq, l.eq(l.row(fresh, i), model[i]))
		}
		verifAssert(eq, "encoded==model")
		verifObserveBytes(label, b.Buf)
	}
	wire := func(k int) ([]T, []byte) {
		src := l.mk()
		vals := make([]T, k)
		for i := range vals {
			vals[i] = l.gen()
			l.app(src, vals[i])
		}
		var b Buffer
		blk := Block{Columns: 1, Rows: k}
		if err := blk.EncodeRawBlock(&b, version, []InputColumn{{Name: "c", Data: src}}); err != nil {
			verifFail("wire-encode")
		}
		return vals, b.Buf
	}
	steps := verifIntRange("steps", 1, verifParam("maxsteps", 3))
	for s := 0; s < steps; s++ {
		switch verifChoice("step", 6) {
		case 5: // bulk append of two values
			vs := []T{l.gen(), l.gen()}
			if l.appArr != nil {
				l.appArr(c, vs)
			} else {
				l.app(c, vs[0])
				l.app(c, vs[1])
			}
			model = append(model, vs...)
		case 0: // append
			v := l.gen()
			l.app(c, v)
			model = append(model, v)
		case 1: // reset
			c.Reset()
			model = nil
		case 2: // encode (and compare) without reset: re-sends the same rows
			check("mid")
		case 3: // block decode into the used column (the library resets the target first)
			vals, data := wire(verifIntRange("k", 0, 2))
			var d Block
			err := d.DecodeRawBlock(NewReader(bytes.NewReader(data)), version, Results{{Name: "c", Data: c}})
			verifAssert(err == nil, "reuse-decode-ok")
			model = vals
			eq := c.Rows() == len(vals)
			for i := 0; i < len(vals) && i < c.Rows(); i++ {
				eq = vAnd(eq, l.eq(l.row(c, i), vals[i]))
			}
			verifAssert(eq, "reuse-decode==fresh-values")
		case 4: // failed decode of a truncated block, then reset
			_, data := wire(1 + verifIntRange("k", 0, 1))
			var d Block
			err := d.DecodeRawBlock(NewReader(bytes.NewReader(data[:len(data)-1])), version, Results{{Name: "c", Data: c}})
			verifAssert(err != nil, "truncated-rejected")
			c.Reset()
			model = nil
		}
	}
	check("final")
}

func VerifC16GenLeaves()   { vMode = 5; VerifC01GenLeaves() }
func VerifC16PlainLeaves() { vMode = 5; VerifC01PlainLeaves() }
func VerifC16Composites()  { vMode = 5; VerifC01Composites() }

// vSegmented (C08): the same block delivered in pieces decodes to the same values, consumes
// the same bytes, and a truncated stream fails whatever the segmentation.
func vSegmented[T any](l vLeafSpec[T], wire []byte, version int, vals []T) {
	cr := &vChunkReader{data: wire}
	switch verifChoice("segmentation", 3) {
	case 0:
		cr.policy = 0
	case 1:
		cr.policy = 1
		if len(wire) > 1 {
			cr.k = verifIntRange("split", 1, len(wire)-1)
		}
	case 2:
		cr.policy = 2
		n := len(wire)
		if mb := verifParam("maskbytes", 8); n > mb {
			n = mb
		}
		if n > 1 {
			cr.mask = uint64(verifIntRange("mask", 0, 1<<(n-1)-1))
		}
	}
	out := l.mk()
	r := NewReader(cr)
	var d Block
	err := d.DecodeBlock(r, version, Results{{Name: "c", Data: out}})
	verifAssert(err == nil, "segmented-decode-ok")
	verifAssert(out.Rows() == len(vals) && d.Rows == len(vals), "segmented-rows")
	eq := true
	for i := 0; i < len(vals) && i < out.Rows(); i++ {
		eq = vAnd(eq, l.eq(l.row(out, i), vals[i]))
	}
	verifAssert(eq, "segmented-values")
	verifAssert(vExhausted(r) && cr.pos == len(wire), "segmented-consumed-all")
	// a cut stream fails under the same segmentation
	if len(wire) > 0 {
		cut := len(wire) - 1 - verifIntRange("cutback", 0, verifParam("maxcutback", 1))
		if cut >= 0 {
			cr2 := &vChunkReader{data: wire[:cut], policy: cr.policy, k: cr.k, mask: cr.mask}
			out2 := l.mk()
			var d2 Block
			err2 := d2.DecodeBlock(NewReader(cr2), version, Results{{Name: "c", Data: out2}})
			verifAssert(err2 != nil, "segmented-truncated-rejected")
		}
	}
	verifObserveU64("reads", uint64(cr.reads))
}

func VerifC08GenLeaves()   { vMode = 6; VerifC01GenLeaves() }
func VerifC08PlainLeaves() { vMode = 6; VerifC01PlainLeaves() }
func VerifC08Composites()  { vMode = 6; VerifC01Composites() }
