//go:build verif

package proto

import (
	"net/netip"
	"time"
)

const vDay = 86400

// vZone returns a fixed-offset zone with a symbolic offset in -12h..+14h.
func vZone() (*time.Location, int64) {
	off := verifI64("zoneoff")
	verifAssume(vAnd(off >= -12*3600, off <= 14*3600))
	return time.FixedZone("v", int(off)), off
}

// VerifC20Date: all 65536 Date values; every instant of 1970-01-01..2149-06-06 in any fixed zone.
func VerifC20Date() {
	d := Date(verifU16("d"))
	verifAssert(ToDate(d.Time()) == d, "date-value-roundtrip")
	verifAssert(d.Time().Unix() == int64(d)*vDay, "date-midnight-utc")

	loc, off := vZone()
	sec, nsec := verifI64("sec"), verifI64("nsec")
	local := sec + off
	verifAssume(vAnd(nsec >= 0, nsec < 1e9))
	verifAssume(vAnd(local >= 0, local < 65536*vDay))
	got := int64(ToDate(time.Unix(sec, nsec).In(loc)))
	verifAssert(vAnd(got*vDay <= local, local < (got+1)*vDay), "date-calendar-day")
}

// VerifC20Date32: Date32 over 1900-01-01..2299-12-31 (days -25567..120529).
func VerifC20Date32() {
	d := Date32(verifI32("d"))
	verifAssume(vAnd(d >= -25567, d <= 120529))
	verifAssert(ToDate32(d.Time()) == d, "date32-value-roundtrip")
	verifAssert(d.Time().Unix() == int64(d)*vDay, "date32-midnight-utc")

	loc, off := vZone()
	sec, nsec := verifI64("sec"), verifI64("nsec")
	local := sec + off
	verifAssume(vAnd(nsec >= 0, nsec < 1e9))
	verifAssume(vAnd(local >= -25567*vDay, local < 120530*vDay))
	got := int64(ToDate32(time.Unix(sec, nsec).In(loc)))
	verifAssert(vAnd(got*vDay <= local, local < (got+1)*vDay), "date32-calendar-day")
}

// VerifC20DateTime: all 2^32 DateTime values; every instant of 1970..2106.
func VerifC20DateTime() {
	d := DateTime(verifU32("d"))
	verifAssert(ToDateTime(d.Time()) == d, "datetime-value-roundtrip")
	loc, _ := vZone()
	sec, nsec := verifI64("sec"), verifI64("nsec")
	verifAssume(vAnd(nsec >= 0, nsec < 1e9))
	verifAssume(vAnd(sec >= 0, sec < 1<<32))
	t := time.Unix(sec, nsec).In(loc)
	back := ToDateTime(t).Time()
	verifAssert(back.Unix() == sec, "datetime-within-one-second")
	verifAssert(vImp(nsec == 0, vAnd(back.Unix() == t.Unix(), back.Nanosecond() == t.Nanosecond())), "datetime-exact-when-representable")
}

// vDT64Range returns the documented DateTime64 range in seconds (1900-01-01 .. 2299-12-31,
// at precision 9 ..2262-04-11 as ClickHouse documents).
func vDT64Range(p Precision) (lo, hi int64) {
	lo, hi = -2208988800, 10413791999
	if p == 9 {
		hi = 9223372036
	}
	return
}

// VerifC20DateTime64: each precision 0..9, the whole documented range.
func VerifC20DateTime64() {
	p := Precision(verifIntRange("precision", 0, 9))
	scale := int64(1)
	for i := Precision(9); i > p; i-- {
		scale *= 10
	}
	perSec := int64(1e9) / scale
	lo, hi := vDT64Range(p)
	verifAssert(p.Scale() == scale, "precision-scale")

	// value -> time -> value
	d := verifI64("d")
	verifAssume(vAnd(d >= lo*perSec, d <= hi*perSec+(perSec-1)))
	verifAssert(ToDateTime64(DateTime64(d).Time(p), p) == DateTime64(d), "datetime64-value-roundtrip")

	// time -> value -> time
	loc, _ := vZone()
	sec, nsec := verifI64("sec"), verifI64("nsec")
	verifAssume(vAnd(nsec >= 0, nsec < 1e9))
	verifAssume(vAnd(sec >= lo, sec <= hi))
	t := time.Unix(sec, nsec).In(loc)
	back := ToDateTime64(t, p).Time(p)
	// distance in nanoseconds, computed without overflow: seconds differ by at most one
	ds := t.Unix() - back.Unix()
	dn := ds*1e9 + int64(t.Nanosecond()) - int64(back.Nanosecond())
	verifAssert(vAnd(ds >= -1, ds <= 1), "datetime64-same-second")
	verifAssert(vAnd(dn > -scale, dn < scale), "datetime64-within-one-tick")
	verifAssert(vImp(nsec%scale == 0, dn == 0), "datetime64-exact-when-representable")
}

// VerifC20Wide: 128/256-bit helpers and IP mappings invert each other.
func VerifC20Wide() {
	v := verifInt("v")
	u := verifU64("u")
	i128 := Int128FromInt(v)
	verifAssert(i128.Int() == v, "int128-from-int")
	verifAssert(vAnd(i128.Low == uint64(v), (i128.High == 0) == (v >= 0)), "int128-sign-extension")
	verifAssert(UInt128FromUInt64(u).UInt64() == u, "uint128-from-uint64")
	verifAssert(Int128FromUInt64(u).UInt64() == u, "int128-from-uint64")
	// ... and denote the value they were made from (an inverse pair can agree on a wrong value):
	// an unsigned 64-bit value is non-negative in every wider type
	i128u := Int128FromUInt64(u)
	verifAssert(vAnd(i128u.Low == u, i128u.High == 0), "int128-from-uint64-value")
	u128 := UInt128FromUInt64(u)
	verifAssert(vAnd(u128.Low == u, u128.High == 0), "uint128-from-uint64-value")
	if v >= 0 {
		u128i := UInt128FromInt(v)
		verifAssert(vAnd(u128i.Low == uint64(v), u128i.High == 0), "uint128-from-nonnegative-int-value")
		u256i := UInt256FromInt(v)
		verifAssert(vAnd(u256i.Low.Low == uint64(v), vAnd(u256i.Low.High == 0, vAnd(u256i.High.Low == 0, u256i.High.High == 0))), "uint256-from-nonnegative-int-value")
	}
	i256 := Int256FromInt(v)
	all := ^uint64(0)
	neg := v < 0
	verifAssert(vAnd(i256.Low.Low == uint64(v), vAnd(i256.Low.High == i256.High.Low, i256.High.Low == i256.High.High)), "int256-limbs")
	verifAssert(vOr(vAnd(neg, i256.High.High == all), vAnd(vNot(neg), i256.High.High == 0)), "int256-sign-extension")
	u256 := UInt256FromUInt64(u)
	verifAssert(vAnd(u256.Low.Low == u, vAnd(u256.Low.High == 0, vAnd(u256.High.Low == 0, u256.High.High == 0))), "uint256-from-uint64")

	// little-endian binary helpers
	x := UInt128{Low: verifU64("lo"), High: verifU64("hi")}
	buf := make([]byte, 16)
	binPutUInt128(buf, x)
	verifAssert(binUInt128(buf) == x, "uint128-binary-roundtrip")
	y := UInt256{Low: x, High: UInt128{Low: verifU64("c"), High: verifU64("d")}}
	buf2 := make([]byte, 32)
	binPutUInt256(buf2, y)
	verifAssert(binUInt256(buf2) == y, "uint256-binary-roundtrip")

	// IPv4 <-> netip.Addr is the big-endian bijection
	ip := IPv4(verifU32("ip"))
	a := ip.ToIP().As4()
	verifAssert(vAnd(a[0] == byte(ip>>24), vAnd(a[1] == byte(ip>>16), vAnd(a[2] == byte(ip>>8), a[3] == byte(ip)))), "ipv4-big-endian")
	verifAssert(ToIPv4(ip.ToIP()) == ip, "ipv4-roundtrip")
	var raw [4]byte
	copy(raw[:], verifBytes("ip4", 4))
	verifAssert(ToIPv4(netip.AddrFrom4(raw)).ToIP().As4() == raw, "ipv4-addr-roundtrip")
	var raw6 [16]byte
	copy(raw6[:], verifBytes("ip6", 16))
	verifAssert(ToIPv6(netip.AddrFrom16(raw6)).ToIP().As16() == raw6, "ipv6-roundtrip")
}

// VerifC20Interval: Add moves the time by the stated amount.
func VerifC20Interval() {
	v := int64(verifI32("v"))
	sec := verifI64("sec")
	verifAssume(vAnd(sec >= -2208988800, sec <= 10413791999))
	t := time.Unix(sec, 0).UTC()
	scale := IntervalScale(verifIntRange("scale", int(IntervalSecond), int(IntervalYear)))
	// time.Duration holds about +-292 years; a longer span is outside Go's Add contract
	unit := int64(1)
	switch scale {
	case IntervalMinute:
		unit = 60
	case IntervalHour:
		unit = 3600
	}
	verifAssume(vAnd(v*unit >= -9000000000, v*unit <= 9000000000))
	got := Interval{Scale: scale, Value: v}.Add(t)
	var want time.Time
	switch scale {
	case IntervalSecond:
		verifAssert(got.Unix() == sec+v, "interval-seconds")
		return
	case IntervalMinute:
		verifAssert(got.Unix() == sec+v*60, "interval-minutes")
		return
	case IntervalHour:
		verifAssert(got.Unix() == sec+v*3600, "interval-hours")
		return
	case IntervalDay:
		want = t.AddDate(0, 0, int(v))
		verifAssert(vAnd(got.Unix() == want.Unix(), got.Nanosecond() == want.Nanosecond()), "interval-days")
	case IntervalWeek:
		want = t.AddDate(0, 0, int(v)*7)
		verifAssert(vAnd(got.Unix() == want.Unix(), got.Nanosecond() == want.Nanosecond()), "interval-weeks")
	case IntervalMonth:
		want = t.AddDate(0, int(v), 0)
		verifAssert(vAnd(got.Unix() == want.Unix(), got.Nanosecond() == want.Nanosecond()), "interval-months")
	case IntervalQuarter:
		want = t.AddDate(0, int(v)*3, 0)
		verifAssert(vAnd(got.Unix() == want.Unix(), got.Nanosecond() == want.Nanosecond()), "interval-quarters")
	case IntervalYear:
		want = t.AddDate(int(v), 0, 0)
		verifAssert(vAnd(got.Unix() == want.Unix(), got.Nanosecond() == want.Nanosecond()), "interval-years")
	}
}
