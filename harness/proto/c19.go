//go:build verif

package proto

// vASCII constrains every byte of s to 7-bit ASCII (strings.TrimSpace and friends
// enter the unicode tables for other bytes, which are outside the model).
func vASCII(s string) {
	ok := true
	for i := 0; i < len(s); i++ {
		ok = vAnd(ok, s[i] < 0x80)
	}
	verifAssume(ok)
}

// VerifC19Relation: on arbitrary type strings the compatibility relation is reflexive
// and symmetric and none of the helpers panics.
func VerifC19Relation() {
	la := verifIntRange("la", 0, verifParam("maxlen", 3))
	lb := verifIntRange("lb", 0, verifParam("maxlen", 3))
	a := ColumnType(verifStr("a", la))
	b := ColumnType(verifStr("b", lb))
	vASCII(string(a))
	vASCII(string(b))
	_ = a.Base()
	_ = a.Elem()
	_ = a.IsArray()
	verifAssert(!a.Conflicts(a), "conflicts-reflexive")
	verifAssert(a.Conflicts(b) == b.Conflicts(a), "conflicts-symmetric")
}

// VerifC19InferTotal: ColAuto.Infer on an arbitrary short type string returns an error
// or a column whose type does not conflict with the request; it never panics.
func VerifC19InferTotal() {
	l := verifIntRange("len", 0, verifParam("maxlen", 4))
	t := ColumnType(verifStr("t", l))
	vASCII(string(t))
	c := new(ColAuto)
	err := c.Infer(t)
	if err != nil {
		verifNote("rejected")
		return
	}
	verifNote("inferred")
	verifAssert(c.Data != nil, "inferred-has-data")
	verifAssert(!c.Type().Conflicts(t), "inferred-type-compatible")
	verifAssert(!c.Data.Type().Conflicts(t), "inferred-data-type-compatible")
}

// parameter kinds of a template
const (
	vDigits = iota // 1..n decimal digits, symbolic
	vScale         // digits; DecimalNN(S) spelling: the statement's equivalences cover Decimal(P,S) <-> DecimalNN, this spelling is asserted in neither direction
	vLeaf          // a leaf type name from vLeafNames (enumerated)
	vFree          // arbitrary ASCII bytes (malformed on purpose): totality only
)

var vLeafNames = []string{"UInt8", "Int64", "String", "UUID", "Bool", "Float64", "Date", "DateTime", "IPv4", "FixedString(8)", "Decimal(9, 2)", "DateTime64(3)", "Enum8('a'=1)", "Nothing"}

var vTemplates = []struct {
	pre, post string
	kind, n   int
}{
	{"Decimal(", ")", vDigits, 2},
	{"Decimal(", ",2)", vDigits, 2},
	{"Decimal(9, ", ")", vDigits, 1},
	{"Decimal32(", ")", vScale, 1},
	{"Decimal64(", ")", vScale, 1},
	{"Decimal128(", ")", vScale, 1},
	{"Decimal256(", ")", vScale, 1},
	{"FixedString(", ")", vDigits, 2},
	{"DateTime64(", ")", vDigits, 1},
	{"Enum8('a'=", ")", vDigits, 2},
	{"Enum16('x' = ", ", 'y' = 2)", vDigits, 2},
	{"Enum8('a'=1,'", "'=2)", vFree, 1},
	{"Array(", ")", vLeaf, 0},
	{"Nullable(", ")", vLeaf, 0},
	{"LowCardinality(", ")", vLeaf, 0},
	{"Map(String,", ")", vLeaf, 0},
	{"Map(", ", String)", vLeaf, 0},
	{"Array(Nullable(", "))", vLeaf, 0},
	{"Array(LowCardinality(", "))", vLeaf, 0},
	{"", "", vLeaf, 0},
	{"Enum8(", "=1)", vFree, 3},
	{"Enum16(", " = 1)", vFree, 2},
	{"Enum8(", ")", vFree, 4},
	{"Enum8('a'=1, ", ")", vFree, 3},
	{"Array(Enum8(", "=1))", vFree, 2},
	{"Nullable(Enum16(", "))", vFree, 3},
	{"FixedString(", ")", vFree, 3},
	{"Map(", ")", vFree, 4},
	{"Map(String", ")", vFree, 3},
	{"Nullable(", ")", vFree, 3},
	{"LowCardinality(", ")", vFree, 3},
	{"DateTime64(3", ")", vFree, 3},
	{"Decimal(9", ")", vFree, 3},
	{"Interval", "", vFree, 4},
	{"Tuple(", ")", vFree, 3},
	{"Array(", ")", vFree, 3},
	{"Decimal(", ")", vFree, 2},
	{"DateTime64(", ")", vFree, 2},
	{"DateTime(", ")", vFree, 2},
}

// VerifC19Templates: well-formed shapes with symbolic parameters: Infer returns an error
// or a column whose own type does not conflict with the request; malformed parameters
// (kind vFree) are checked for totality only.
func VerifC19Templates() {
	k := verifChoice("template", len(vTemplates))
	tp := vTemplates[k]
	var mid string
	switch tp.kind {
	case vDigits, vScale:
		mid = verifStr("p", verifIntRange("plen", 1, tp.n))
		ok := true
		for i := 0; i < len(mid); i++ {
			ok = vAnd(ok, vAnd(mid[i] >= '0', mid[i] <= '9'))
		}
		verifAssume(ok)
	case vLeaf:
		mid = vLeafNames[verifChoice("leaf", len(vLeafNames))]
	default:
		mid = verifStr("p", verifIntRange("plen", 0, tp.n))
		vASCII(mid)
	}
	t := ColumnType(tp.pre + mid + tp.post)
	verifAssert(!t.Conflicts(t), "template-reflexive")
	c := new(ColAuto)
	err := c.Infer(t)
	if err != nil {
		verifNote("rejected")
		return
	}
	verifNote("inferred")
	verifAssert(c.Data != nil, "template-has-data")
	if tp.kind == vDigits || tp.kind == vLeaf {
		verifAssert(!c.Data.Type().Conflicts(t), "template-type-compatible")
		verifAssert(!t.Conflicts(c.Data.Type()), "template-type-compatible-sym")
	}
	c.Data.Reset()
	verifAssert(c.Data.Rows() == 0, "template-empty")
}

var vBases = []string{"Int8", "Int16", "UInt8", "Enum8", "Enum16", "Decimal", "Decimal32", "Decimal64", "Decimal128", "Decimal256",
	"Array", "Nullable", "LowCardinality", "DateTime", "DateTime64", "Map", "FixedString", "String", "Tuple"}

// vVocabType builds base | base(params) with symbolic parameter bytes.
func vVocabType(tag string, base int) (ColumnType, int) {
	if base < 0 {
		base = verifChoice(tag+".base", len(vBases))
	}
	return vVocabTypeOf(tag, vBases[base]), base
}

func vVocabTypeOf(tag, b string) ColumnType {
	switch verifChoice(tag+".shape", 3) {
	case 0:
		return ColumnType(b)
	case 1:
		p := verifStr(tag+".p", verifIntRange(tag+".plen", 0, verifParam("maxparam", 2)))
		vASCII(p)
		return ColumnType(b + "(" + p + ")")
	default:
		// a nested known type as parameter
		in := vBases[verifChoice(tag+".inner", len(vBases))]
		return ColumnType(b + "(" + in + ")")
	}
}

// VerifC19RelationVocab: symmetry and reflexivity over types assembled from the
// library's own vocabulary of base names with symbolic or nested parameters.
func VerifC19RelationVocab() {
	a, ai := vVocabType("a", -1)
	if verifParam("samebase", 0) == 0 {
		ai = -1 // every pair of bases; otherwise longer parameters under one base
	}
	b, _ := vVocabType("b", ai)
	verifAssert(!a.Conflicts(a), "vocab-reflexive")
	verifAssert(a.Conflicts(b) == b.Conflicts(a), "vocab-symmetric")
	if a.Base() != b.Base() && a.Base() != "" && b.Base() != "" {
		verifNote("different-base")
	}
}
