//go:build verif

package proto

// Independent reference encoder for the ClickHouse native protocol, written from
// DESIGN.md Appendix A (ClickHouse Core/ProtocolDefines.h), not from the library's
// encoders. It has its own threshold table and its own primitive writers.

const (
	refRevBlockInfo       = 51903
	refRevTimezone        = 54058
	refRevQuotaKeyInCI    = 54060
	refRevDisplayName     = 54372
	refRevVersionPatch    = 54401
	refRevTempTables      = 50264
	refRevWriteInfo       = 54420
	refRevSettingsStrings = 54429
	refRevSecret          = 54441
	refRevOpenTelemetry   = 54442
	refRevDistDepth       = 54448
	refRevQueryStartTime  = 54449
	refRevParallelRepl    = 54453
	refRevCustomSerial    = 54454
	refRevAddendum        = 54458
	refRevParameters      = 54459
	refRevElapsedNs       = 54460
)

type refBuf struct{ b []byte }

func (r *refBuf) u8(v byte) { r.b = append(r.b, v) }

func (r *refBuf) uv(x uint64) {
	for x >= 0x80 {
		r.b = append(r.b, byte(x)|0x80)
		x >>= 7
	}
	r.b = append(r.b, byte(x))
}

func (r *refBuf) vint(x int) { r.uv(uint64(x)) }

func (r *refBuf) str(s string) {
	r.uv(uint64(len(s)))
	r.b = append(r.b, s...)
}

func (r *refBuf) boolean(v bool) {
	if v {
		r.u8(1)
	} else {
		r.u8(0)
	}
}

func (r *refBuf) u16(v uint16) { r.b = append(r.b, byte(v), byte(v>>8)) }
func (r *refBuf) u32(v uint32) { r.b = append(r.b, byte(v), byte(v>>8), byte(v>>16), byte(v>>24)) }
func (r *refBuf) u64(v uint64) {
	r.u32(uint32(v))
	r.u32(uint32(v >> 32))
}

func refClientHello(c ClientHello) []byte {
	var r refBuf
	r.u8(0)
	r.str(c.Name)
	r.vint(c.Major)
	r.vint(c.Minor)
	r.vint(c.ProtocolVersion)
	r.str(c.Database)
	r.str(c.User)
	r.str(c.Password)
	return r.b
}

// refServerHello: v is the revision of the client the hello is written for.
func refServerHello(s ServerHello, v int) []byte {
	var r refBuf
	r.u8(0)
	r.str(s.Name)
	r.vint(s.Major)
	r.vint(s.Minor)
	r.vint(s.Revision)
	if v >= refRevTimezone {
		r.str(s.Timezone)
	}
	if v >= refRevDisplayName {
		r.str(s.DisplayName)
	}
	if v >= refRevVersionPatch {
		r.vint(s.Patch)
	}
	return r.b
}

func refProgress(p Progress, v int) []byte {
	var r refBuf
	r.uv(p.Rows)
	r.uv(p.Bytes)
	r.uv(p.TotalRows)
	if v >= refRevWriteInfo {
		r.uv(p.WroteRows)
		r.uv(p.WroteBytes)
	}
	if v >= refRevElapsedNs {
		r.uv(p.ElapsedNs)
	}
	return r.b
}

func refProfile(p Profile) []byte {
	var r refBuf
	r.u8(6)
	r.uv(p.Rows)
	r.uv(p.Blocks)
	r.uv(p.Bytes)
	r.boolean(p.AppliedLimit)
	r.uv(p.RowsBeforeLimit)
	r.boolean(p.CalculatedRowsBeforeLimit)
	return r.b
}

func refException(e Exception) []byte {
	var r refBuf
	r.u32(uint32(int32(e.Code)))
	r.str(e.Name)
	r.str(e.Message)
	r.str(e.Stack)
	r.boolean(e.Nested)
	return r.b
}

func refTableColumns(c TableColumns) []byte {
	var r refBuf
	r.u8(11)
	r.str(c.First)
	r.str(c.Second)
	return r.b
}

func refClientData(c ClientData, v int) []byte {
	var r refBuf
	if v >= refRevTempTables {
		r.str(c.TableName)
	}
	return r.b
}

func refBlockHeader(b Block, v int) []byte {
	var r refBuf
	if v >= refRevBlockInfo {
		r.uv(1)
		r.boolean(b.Info.Overflows)
		r.uv(2)
		r.u32(uint32(int32(b.Info.BucketNum)))
		r.uv(0)
	}
	r.vint(b.Columns)
	r.vint(b.Rows)
	return r.b
}

func refSetting(r *refBuf, s Setting) {
	r.str(s.Key)
	var f uint64
	if s.Important {
		f |= 1
	}
	if s.Custom {
		f |= 2
	}
	if s.Obsolete {
		f |= 4
	}
	r.uv(f)
	r.str(s.Value)
}

// refSpan, when set, is the OpenTelemetry span the reference writes into the client info
// (16 bytes trace id, 8 bytes span id, flags).
var refSpan *struct {
	ids   [24]byte
	flags byte
}

// refClientInfo encodes a client info section (with refSpan, if set).
func refClientInfo(r *refBuf, c ClientInfo, v int) {
	r.u8(byte(c.Query))
	r.str(c.InitialUser)
	r.str(c.InitialQueryID)
	r.str(c.InitialAddress)
	if v >= refRevQueryStartTime {
		r.u64(uint64(c.InitialTime))
	}
	r.u8(byte(c.Interface))
	r.str(c.OSUser)
	r.str(c.ClientHostname)
	r.str(c.ClientName)
	r.vint(c.Major)
	r.vint(c.Minor)
	r.vint(c.ProtocolVersion)
	if v >= refRevQuotaKeyInCI {
		r.str(c.QuotaKey)
	}
	if v >= refRevDistDepth {
		r.vint(c.DistributedDepth)
	}
	if v >= refRevVersionPatch && c.Interface == 1 {
		r.vint(c.Patch)
	}
	if v >= refRevOpenTelemetry {
		if refSpan != nil {
			// trace id and span id as two / one 64-bit words, each byte-reversed; empty trace state; flags
			r.u8(1)
			for w := 0; w < 3; w++ {
				for i := 7; i >= 0; i-- {
					r.u8(refSpan.ids[w*8+i])
				}
			}
			r.str("")
			r.u8(refSpan.flags)
		} else {
			r.u8(0)
		}
	}
	if v >= refRevParallelRepl {
		if c.CollaborateWithInitiator {
			r.vint(1)
		} else {
			r.vint(0)
		}
		r.vint(c.CountParticipatingReplicas)
		r.vint(c.NumberOfCurrentReplica)
	}
}

// refQuery encodes a Query packet (stage Complete).
func refQuery(q Query, v int) []byte {
	var r refBuf
	r.u8(1)
	r.str(q.ID)
	if v >= refRevWriteInfo {
		refClientInfo(&r, q.Info, v)
	}
	if v >= refRevSettingsStrings {
		for _, s := range q.Settings {
			refSetting(&r, s)
		}
	}
	r.str("")
	if v >= refRevSecret {
		r.str(q.Secret)
	}
	r.uv(2)
	r.uv(uint64(q.Compression))
	r.str(q.Body)
	if v >= refRevParameters {
		for _, p := range q.Parameters {
			refSetting(&r, Setting{Key: p.Key, Value: p.Value, Custom: true})
		}
		r.str("")
	}
	return r.b
}
