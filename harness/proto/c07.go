//go:build verif

package proto

// vSmall7 returns a symbolic integer that fits a one-byte varint.
func vSmall7(label string) int { return int(verifU8(label) & 0x7f) }

// vCut: decoding any proper prefix of buf fails.
func vCut(buf []byte, label string, dec func(r *Reader) error) {
	if len(buf) == 0 {
		return
	}
	k := verifIntRange("cut", 0, len(buf)-1)
	b := Buffer{Buf: buf[:k]}
	err := dec(b.Reader())
	verifAssert(err != nil, label)
	verifObserveU64("cut", uint64(k))
}

// VerifC07Messages: every proper prefix of an encoded protocol message is rejected.
func VerifC07Messages() {
	v := verifInt("version")
	sl := verifIntRange("strlen", 0, verifParam("maxstr", 1))
	var b Buffer
	switch verifChoice("msg", 9) {
	case 0:
		c := ClientHello{Name: verifStr("s", sl), Major: vSmall7("a"), Minor: vSmall7("b"), ProtocolVersion: int(verifU16("c")),
			Database: verifStr("s", sl), User: verifStr("s", sl), Password: verifStr("s", sl)}
		c.Encode(&b)
		vCut(b.Buf[1:], "clienthello-prefix-rejected", func(r *Reader) error { var d ClientHello; return d.Decode(r) })
	case 1:
		s := ServerHello{Name: verifStr("s", sl), Major: vSmall7("a"), Minor: vSmall7("b"), Revision: int(verifU16("c")),
			Timezone: verifStr("s", sl), DisplayName: verifStr("s", sl), Patch: vSmall7("p")}
		s.EncodeAware(&b, v)
		vCut(b.Buf[1:], "serverhello-prefix-rejected", func(r *Reader) error { var d ServerHello; return d.DecodeAware(r, v) })
	case 2:
		p := Progress{Rows: uint64(verifU16("a")), Bytes: uint64(vSmall7("b")), TotalRows: uint64(vSmall7("c")), WroteRows: uint64(vSmall7("d")),
			WroteBytes: uint64(vSmall7("e")), ElapsedNs: uint64(vSmall7("f"))}
		p.EncodeAware(&b, v)
		vCut(b.Buf, "progress-prefix-rejected", func(r *Reader) error { var d Progress; return d.DecodeAware(r, v) })
	case 3:
		p := Profile{Rows: uint64(verifU16("a")), Blocks: uint64(vSmall7("b")), Bytes: uint64(vSmall7("c")), AppliedLimit: verifBool("d"),
			RowsBeforeLimit: uint64(vSmall7("e")), CalculatedRowsBeforeLimit: verifBool("f")}
		p.EncodeAware(&b, v)
		vCut(b.Buf[1:], "profile-prefix-rejected", func(r *Reader) error { var d Profile; return d.DecodeAware(r, v) })
	case 4:
		e := Exception{Code: Error(verifI32("code")), Name: verifStr("s", sl), Message: verifStr("s", sl), Stack: verifStr("s", sl), Nested: verifBool("n")}
		e.EncodeAware(&b, v)
		vCut(b.Buf, "exception-prefix-rejected", func(r *Reader) error { var d Exception; return d.DecodeAware(r, v) })
	case 5:
		c := TableColumns{First: verifStr("s", sl), Second: verifStr("s", sl)}
		c.EncodeAware(&b, v)
		vCut(b.Buf[1:], "tablecolumns-prefix-rejected", func(r *Reader) error { var d TableColumns; return d.DecodeAware(r, v) })
	case 6:
		c := ClientData{TableName: verifStr("s", sl)}
		c.EncodeAware(&b, v)
		vCut(b.Buf, "clientdata-prefix-rejected", func(r *Reader) error { var d ClientData; return d.DecodeAware(r, v) })
	case 7:
		blk := Block{Info: BlockInfo{Overflows: verifBool("o"), BucketNum: int(verifI32("bk"))}, Columns: vSmall7("c"), Rows: int(verifU16("r"))}
		verifAssume(blk.Columns+blk.Rows > 0)
		blk.EncodeAware(&b, v)
		vCut(b.Buf, "blockheader-prefix-rejected", func(r *Reader) error {
			var d Block
			return d.DecodeBlock(r, v, nil)
		})
	case 8:
		verifAssume(v >= refRevSettingsStrings)
		q := Query{ID: verifStr("s", sl), Body: verifStr("s", sl), Secret: verifStr("s", sl), Stage: StageComplete, Compression: CompressionEnabled,
			Info: ClientInfo{ProtocolVersion: int(verifU16("pv")), Major: vSmall7("a"), Minor: vSmall7("b"), Patch: vSmall7("c"),
				Interface: InterfaceTCP, Query: ClientQueryInitial, InitialUser: verifStr("s", sl), InitialQueryID: verifStr("s", sl), InitialAddress: verifStr("s", sl),
				InitialTime: verifI64("t"), OSUser: verifStr("s", sl), ClientHostname: verifStr("s", sl), ClientName: verifStr("s", sl), QuotaKey: verifStr("s", sl),
				DistributedDepth: vSmall7("d"), CollaborateWithInitiator: verifBool("cw"), CountParticipatingReplicas: vSmall7("e"), NumberOfCurrentReplica: vSmall7("f")},
			Settings:   []Setting{{Key: "k" + verifStr("s", sl), Value: verifStr("s", sl), Important: verifBool("i")}},
			Parameters: []Parameter{{Key: "p" + verifStr("s", sl), Value: verifStr("s", sl)}}}
		q.EncodeAware(&b, v)
		vCut(b.Buf[1:], "query-prefix-rejected", func(r *Reader) error { var d Query; return d.DecodeAware(r, v) })
	}
}
