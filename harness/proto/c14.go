//go:build verif

package proto

// VerifC14History: every sequence of <=N operations over {ChainBuffer k bytes,
// ChainWrite of a k-byte slice, Flush} delivers exactly the concatenation, in call
// order, of what was chained since the previous flush; after a flush (successful or
// failed) nothing from before it is written again.
func VerifC14History() {
	nops := verifIntRange("nops", 1, verifParam("maxops", 3))
	sink := &vSink{failAfter: verifIntRange("failAfter", -1, 4)}
	w := NewWriter(sink, new(Buffer))
	var model []byte // bytes chained since the last flush
	var want []byte  // what the sink must have received overall
	for i := 0; i < nops; i++ {
		switch verifChoice("op", 3) {
		case 0:
			k := verifIntRange("k", 0, 3)
			data := verifBytes("buf", k)
			w.ChainBuffer(func(b *Buffer) { b.PutRaw(data) })
			model = append(model, data...)
		case 1:
			k := verifIntRange("k", 0, 3)
			data := verifBytes("vec", k)
			w.ChainWrite(data)
			model = append(model, data...)
		case 2:
			before := len(sink.got)
			budget := sink.failAfter
			n, err := w.Flush()
			if budget < 0 || len(model) <= budget {
				verifAssert(err == nil, "flush-ok")
				want = append(want, model...)
			} else {
				verifAssert(err != nil, "flush-fails")
				want = append(want, model[:budget]...)
			}
			verifAssert(int(n) == len(sink.got)-before, "flush-count")
			verifAssert(vBytesEq(sink.got, want), "flushed==concat")
			verifAssert(w.bufOffset == 0 && len(w.vec) == 0 && len(w.buf.Buf) == 0, "writer-empty-after-flush")
			model = model[:0]
		}
	}
	// final flush: whatever is pending is delivered once, nothing earlier again
	budget := sink.failAfter
	_, err := w.Flush()
	if budget < 0 || len(model) <= budget {
		verifAssert(err == nil, "final-flush-ok")
		want = append(want, model...)
	} else {
		want = append(want, model[:budget]...)
	}
	verifAssert(vBytesEq(sink.got, want), "final==concat")
	verifObserveBytes("got", sink.got)
}
