//go:build verif

package proto

// VerifC14History: every sequence of <=N operations over {ChainBuffer k bytes,
// ChainWrite of a k-byte slice, Flush} delivers exactly the concatenation, in call
// order, of what was chained since the previous flush; after a flush (successful or
// failed) nothing from before it is written again.
func VerifC14History() {
	nops := verifIntRange("nops", 1, verifParam("maxops", 3))
	sink := &vSink{failAfter: verifIntRange("failAfter", -1, 4)}
	w := NewWriter(sink, new(Buffer))
	var model []byte // bytes chained since the last flush
	var want []byte  // what the sink must have received overall
	for i := 0; i < nops; i++ {
		switch verifChoice("op", 3) {
		case 0:
			k := verifIntRange("k", 0, 3)
			data := verifBytes("buf", k)
			w.ChainBuffer(func(b *Buffer) { b.PutRaw(data) })
			model = append(model, data...)
		case 1:
			k := verifIntRange("k", 0, 3)
			data := verifBytes("vec", k)
			w.ChainWrite(data)
			model = append(model, data...)
		case 2:
			before := len(sink.got)
			budget := sink.failAfter
			n, err := w.Flush()
			if budget < 0 || len(model) <= budget {
				verifAssert(err == nil, "flush-ok")
				want = append(want, model...)
			} else {
				verifAssert(err != nil, "flush-fails")
				want = append(want, model[:budget]...)
			}
			verifAssert(int(n) == len(sink.got)-before, "flush-count")
			verifAssert(vBytesEq(sink.got, want), "flushed==concat")
			verifAssert(w.bufOffset == 0 && len(w.vec) == 0 && len(w.buf.Buf) == 0, "writer-empty-after-flush")
			model = model[:0]
		}
	}
	// final flush: whatever is pending is delivered once, nothing earlier again
	budget := sink.failAfter
	_, err := w.Flush()
	if budget < 0 || len(model) <= budget {
		verifAssert(err == nil, "final-flush-ok")
		want = append(want, model...)
	} else {
		want = append(want, model[:budget]...)
	}
	verifAssert(vBytesEq(sink.got, want), "final==concat")
	verifObserveBytes("got", sink.got)
}

// vLongValue: n bytes, the first, the middle and the last symbolic, the rest a concrete pattern.
func vLongValue(n int, tag string) []byte {
	b := make([]byte, n)
	for i := range b {
		b[i] = byte(i*7 + 1)
	}
	if n > 0 {
		b[0] = verifU8(tag + ".first")
		b[n/2] = verifU8(tag + ".mid")
		b[n-1] = verifU8(tag + ".last")
	}
	return b
}

// VerifC14LongValues: path equivalence (WriteColumn + Flush == EncodeColumn) for string-like
// columns holding values whose length sits on either side of a power of two - where length
// varints grow and where an implementation may switch between copying and chaining - next to
// short ones, in each order.
func VerifC14LongValues() {
	lens := [...]int{127, 128, 255, 256, 1023, 1024, 1025, 4095, 4096, 16383, 16384}
	long := lens[verifChoice("len", len(lens))]
	var rows [][]byte
	switch verifChoice("order", 4) {
	case 0:
		rows = [][]byte{vLongValue(long, "a"), vLongValue(1, "b")}
	case 1:
		rows = [][]byte{vLongValue(2, "a"), vLongValue(long, "b")}
	case 2:
		rows = [][]byte{vLongValue(long, "a"), vLongValue(long+1, "b"), vLongValue(0, "c")}
	case 3:
		rows = [][]byte{vLongValue(long, "a")}
	}
	var col ColInput
	switch verifChoice("column", 5) {
	case 0:
		c := new(ColStr)
		for _, r := range rows {
			c.AppendBytes(r)
		}
		col = c
	case 1:
		c := new(ColBytes)
		for _, r := range rows {
			c.Append(r)
		}
		col = c
	case 2:
		c := new(ColStr).Array()
		var all []string
		for _, r := range rows {
			all = append(all, string(r))
		}
		c.Append(all)
		col = c
	case 3:
		c := new(ColStr).Nullable()
		for _, r := range rows {
			c.Append(NewNullable(string(r)))
		}
		col = c
	case 4:
		c := new(ColStr).LowCardinality()
		for _, r := range rows {
			c.Append(string(r))
		}
		c.Prepare()
		col = c
	}
	var enc Buffer
	if s, ok := col.(StateEncoder); ok {
		s.EncodeState(&enc)
	}
	col.EncodeColumn(&enc)
	sink := &vSink{failAfter: -1}
	w := NewWriter(sink, new(Buffer))
	if s, ok := col.(StateEncoder); ok {
		w.ChainBuffer(func(b *Buffer) { s.EncodeState(b) })
	}
	col.WriteColumn(w)
	_, err := w.Flush()
	verifAssert(err == nil, "long-flush-ok")
	verifAssert(len(sink.got) == len(enc.Buf), "long-vectored-length==encoded-length")
	verifAssert(vBytesEq(sink.got, enc.Buf), "long-vectored==encoded")
	verifObserveU64("len", uint64(len(sink.got)))
}
