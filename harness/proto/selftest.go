//go:build verif

package proto

import "math"

// VerifSelfFloatCmp: the engine's float comparisons agree with the hardware's on a replay (engine self-test).
func VerifSelfFloatCmp() {
	a := math.Float32frombits(verifU32("a"))
	b := math.Float32frombits(verifU32("b"))
	r := uint64(0)
	if a == b {
		r |= 1
	}
	if a < b {
		r |= 2
	}
	if a <= b {
		r |= 4
	}
	if a > b {
		r |= 8
	}
	if a >= b {
		r |= 16
	}
	if a != b {
		r |= 32
	}
	x := math.Float64frombits(verifU64("x"))
	y := math.Float64frombits(verifU64("y"))
	if x == y {
		r |= 64
	}
	if x < y {
		r |= 128
	}
	if x >= y {
		r |= 256
	}
	verifObserveU64("cmp", r)
}
