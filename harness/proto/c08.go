//go:build verif

package proto

// VerifC08Messages (C08, "split at any position inside a varint"): a server message whose varints
// take one to three bytes, preceded by one byte the caller has already consumed (so that the rest of
// that transport segment sits in the reader's buffer), decodes to the same fields and consumes the
// same bytes whether the stream arrives one byte at a time or in two pieces split at any offset.
func VerifC08Messages() {
	v := verifInt("version")
	var b Buffer
	lead := verifU8("lead")
	b.PutByte(lead)
	kind := verifChoice("msg", 2)
	var p Progress
	var q Profile
	if kind == 0 {
		p = Progress{Rows: uint64(verifU16("a")), Bytes: uint64(verifU32("b") & 0x1fffff), TotalRows: uint64(vSmall7("c")),
			WroteRows: uint64(verifU16("d")), WroteBytes: uint64(vSmall7("e")), ElapsedNs: uint64(verifU16("f"))}
		p.EncodeAware(&b, v)
	} else {
		q = Profile{Rows: uint64(verifU16("a")), Blocks: uint64(vSmall7("b")), Bytes: uint64(verifU16("c")), AppliedLimit: verifBool("d"),
			RowsBeforeLimit: uint64(verifU16("e")), CalculatedRowsBeforeLimit: verifBool("f")}
		q.EncodeAware(&b, v)
	}
	wire := b.Buf
	cr := &vChunkReader{data: wire}
	if verifChoice("segmentation", 2) == 1 {
		cr.policy = 1
		cr.k = verifIntRange("split", 1, len(wire)-1)
	}
	r := NewReader(cr)
	got, err := r.UInt8()
	verifAssert(err == nil && got == lead, "segmented-lead-byte")
	// the decoded message is compared through its own encoding at the same revision, so that fields
	// the revision does not carry are not compared
	var b2 Buffer
	b2.PutByte(lead)
	if kind == 0 {
		var d Progress
		err = d.DecodeAware(r, v)
		verifAssert(err == nil, "segmented-message-ok")
		d.EncodeAware(&b2, v)
	} else {
		code, err0 := r.UInt8() // Profile.EncodeAware writes its packet code first
		verifAssert(err0 == nil && code == wire[1], "segmented-lead-byte")
		var d Profile
		err = d.DecodeAware(r, v)
		verifAssert(err == nil, "segmented-message-ok")
		d.EncodeAware(&b2, v)
	}
	verifAssert(vBytesEq(b2.Buf, wire), "segmented-message-values")
	verifAssert(vExhausted(r) && cr.pos == len(wire), "segmented-message-consumed-all")
	verifObserveU64("reads", uint64(cr.reads))
}
