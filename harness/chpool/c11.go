//go:build verif

package chpool

import (
	"context"
	"sync"
	"time"

	"github.com/ClickHouse/ch-go"
)

func vPool(srv *ch.VerifServer, maxConns int32, lifetime, idle time.Duration) *Pool {
	p, err := New(context.Background(), Options{
		ClientOptions:   ch.Options{Dialer: srv, ProtocolVersion: 54460},
		MaxConns:        maxConns,
		MaxConnLifetime: lifetime,
		MaxConnIdleTime: idle,
	})
	if err != nil {
		verifFail("pool-created")
	}
	return p
}

// VerifC11Handles: the sequential handle protocol over the real puddle pool.
func VerifC11Handles() {
	srv := ch.VerifNewServer()
	maxConns := int32(verifIntRange("maxconns", 1, 2))
	p := vPool(srv, maxConns, time.Hour, time.Hour)
	ctx := context.Background()
	a, err := p.Acquire(ctx)
	verifAssert(err == nil && a != nil, "first-acquire")
	verifAssert(a.Ping(ctx) == nil, "ping-through-handle")
	ia := srv.VerifConnIndex(a.client())
	a.Release()
	if verifChoice("release-twice", 2) == 1 {
		a.Release() // must have no effect
	}
	verifAssert(p.Stat().AcquiredResources() == 0, "released-is-idle")
	b, err := p.Acquire(ctx)
	verifAssert(err == nil && b != nil, "second-acquire")
	ib := srv.VerifConnIndex(b.client())
	verifAssert(ib == ia, "idle-connection-reused")
	// a previous holder releases again while b is using the connection
	stale := verifChoice("stale-release", 2) == 1
	if stale {
		a.Release()
	}
	verifAssert(p.Stat().AcquiredResources() == 1, "holder-still-counted")
	// a third holder must never get the connection b is using
	short, cancel := context.WithCancel(ctx)
	if maxConns == 1 {
		cancel() // with one connection the acquire cannot succeed while b holds it
	}
	c, err := p.Acquire(short)
	cancel()
	if err == nil {
		ic := srv.VerifConnIndex(c.client())
		verifAssert(ic != ib, "one-holder-per-connection")
		verifAssert(srv.OpenConns() <= int(maxConns), "max-conns-respected")
		c.Release()
	} else {
		verifAssert(maxConns == 1, "acquire-fails-only-when-exhausted")
	}
	verifAssert(b.Ping(ctx) == nil, "holder-unaffected")
	b.Release()
	verifAssert(srv.Dials() <= int(maxConns), "dials-bounded")
	p.Close()
	verifAssert(srv.OpenConns() == 0, "all-connections-closed-after-close")
}

// VerifC11Expiry: closed or expired connections are destroyed on release and never reissued;
// the health check destroys idle connections past lifetime or idle time.
func VerifC11Expiry() {
	srv := ch.VerifNewServer()
	ctx := context.Background()
	switch verifChoice("case", 6) {
	case 5: // the lifetime counts from creation, however the time was spent: two holds, each shorter than the lifetime
		p := vPool(srv, 1, 100*time.Millisecond, time.Hour)
		a, _ := p.Acquire(ctx)
		verifClockAdvanceTo(time.Now().Add(60 * time.Millisecond).UnixMilli())
		a.Release() // 60 ms old: kept
		verifSettle()
		verifAssert(!srv.Closed(0), "young-connection-kept-on-release")
		b, _ := p.Acquire(ctx)
		verifAssert(srv.VerifConnIndex(b.client()) == 0, "young-connection-reused")
		verifClockAdvanceTo(time.Now().Add(60 * time.Millisecond).UnixMilli())
		b.Release() // ~120 ms old: past its lifetime
		verifSettle()
		verifAssert(srv.Closed(0), "lifetime-counts-from-creation")
		c, _ := p.Acquire(ctx)
		verifAssert(srv.VerifConnIndex(c.client()) == 1, "expired-connection-not-reissued-later")
		c.Release()
		p.Close()
	case 4: // a periodic health check must not keep an idle connection alive: idleness counts from the last use
		p := vPool(srv, 2, time.Hour, 100*time.Millisecond)
		a, _ := p.Acquire(ctx)
		a.Release()
		verifClockAdvanceTo(time.Now().Add(60 * time.Millisecond).UnixMilli())
		p.checkIdleConnsHealth() // idle for ~60 ms: kept
		verifSettle()
		verifAssert(!srv.Closed(0), "idle-within-limit-kept")
		verifClockAdvanceTo(time.Now().Add(60 * time.Millisecond).UnixMilli())
		p.checkIdleConnsHealth() // idle for ~120 ms since its last use: destroyed
		verifSettle()
		verifAssert(srv.Closed(0), "idle-time-counts-from-last-use")
		p.Close()
	case 0: // the client died while held
		p := vPool(srv, 2, time.Hour, time.Hour)
		a, err := p.Acquire(ctx)
		verifAssert(err == nil, "acquire")
		_ = a.client().Close() // the client died (closed after a failed query) while held
		a.Release()
		verifSettle()
		verifAssert(srv.Closed(0), "dead-connection-closed")
		b, err := p.Acquire(ctx)
		verifAssert(err == nil, "reacquire")
		verifAssert(srv.VerifConnIndex(b.client()) == 1, "dead-connection-not-reissued")
		b.Release()
		p.Close()
	case 1: // lifetime exceeded at release
		p := vPool(srv, 2, time.Nanosecond, time.Hour)
		a, _ := p.Acquire(ctx)
		a.Release()
		verifSettle()
		verifAssert(srv.Closed(0), "expired-connection-destroyed-on-release")
		b, _ := p.Acquire(ctx)
		verifAssert(srv.VerifConnIndex(b.client()) == 1, "expired-connection-not-reissued")
		b.Release()
		p.Close()
	case 2: // health check: idle too long
		p := vPool(srv, 2, time.Hour, time.Nanosecond)
		a, _ := p.Acquire(ctx)
		a.Release()
		verifAssert(!srv.Closed(0), "idle-connection-kept-until-checked")
		p.checkIdleConnsHealth()
		verifSettle()
		verifAssert(srv.Closed(0), "idle-expired-destroyed-by-health-check")
		p.Close()
	case 3: // health check keeps healthy idle connections
		p := vPool(srv, 2, time.Hour, time.Hour)
		a, _ := p.Acquire(ctx)
		a.Release()
		p.checkIdleConnsHealth()
		verifSettle()
		verifAssert(!srv.Closed(0), "healthy-idle-kept")
		b, _ := p.Acquire(ctx)
		verifAssert(srv.VerifConnIndex(b.client()) == 0, "healthy-idle-reused")
		b.Release()
		p.Close()
		verifAssert(srv.OpenConns() == 0, "closed-after-pool-close")
	}
}

// VerifC12Pool: a pool shared by two users while the idle health check runs, under the
// happens-before analysis: the pool's own bookkeeping (puddle, the handle slots, the client
// behind a handle) is never touched by two goroutines without an ordering between them.
func VerifC12Pool() {
	srv := ch.VerifNewServer()
	srv.Safe = true
	maxConns := int32(verifIntRange("maxconns", 1, 2))
	verifSchedPolicy([3]string{"first", "last", "rr"}[verifChoice("policy", 3)], 0)
	// the options (with room to spare in the settings slice) are shared by every connection of the pool
	settings := make([]ch.Setting, 1, 4)
	settings[0] = ch.Setting{Key: "a", Value: "1"}
	p, err := New(context.Background(), Options{
		ClientOptions:   ch.Options{Dialer: srv, ProtocolVersion: 54460, Settings: settings},
		MaxConns:        maxConns,
		MaxConnLifetime: time.Hour,
		MaxConnIdleTime: time.Hour,
	})
	if err != nil {
		verifFail("pool-created")
		return
	}
	ctx := context.Background()
	var wg sync.WaitGroup
	user := func() {
		defer wg.Done()
		c, err := p.Acquire(ctx)
		if err != nil {
			return
		}
		_ = c.Ping(ctx)
		// a query with its own settings (the scripted server answers with a Pong: the query fails
		// after it was sent, which is all the analysis needs)
		_ = c.Do(ctx, ch.Query{Body: "SELECT 1", Settings: []ch.Setting{{Key: "q", Value: "2"}}})
		c.Release()
		c.Release() // inert
	}
	wg.Add(3)
	go user()
	go user()
	go func() {
		defer wg.Done()
		p.checkIdleConnsHealth()
	}()
	wg.Wait()
	verifSettle() // connections of failed queries are destroyed asynchronously
	verifAssert(p.Stat().AcquiredResources() == 0, "all-released")
	p.Close()
	verifAssert(srv.OpenConns() == 0, "pool-closed")
	verifObserveU64("dials", uint64(srv.Dials()))
}

// VerifC11History: every history of up to N operations over {acquire, release any handle ever
// handed out (held or not), ping through a held handle, idle health check, the client of a held
// handle dies and is released} on a pool of 1..2 connections, with a model of who holds what:
// after every step the pool's count of acquired resources equals the model's, a connection has at
// most one holder, a release of a handle that holds nothing changes nothing, dead connections are
// closed and never handed out again, and at most MaxConns connections are open.
func VerifC11History() {
	srv := ch.VerifNewServer()
	srv.CloseErr = verifChoice("close-reports-error", 2) == 1
	maxConns := int32(verifIntRange("maxconns", 1, 2))
	p := vPool(srv, maxConns, time.Hour, time.Hour)
	ctx := context.Background()
	var handles []*Client
	var holds []int // connection index held by handles[i], -1 once released
	dead := map[int]bool{}
	held := func() int {
		n := 0
		for _, h := range holds {
			if h >= 0 {
				n++
			}
		}
		return n
	}
	steps := verifIntRange("steps", 1, verifParam("maxsteps", 3))
	for s := 0; s < steps; s++ {
		switch verifChoice("op", 7) {
		case 5, 6: // the pool's own Do / Ping: acquire, use, release on every path - also when the query fails
			if held() >= int(maxConns) {
				break // it would wait for a release that this history does not contain
			}
			before := srv.Dials()
			if verifChoice("poolop", 2) == 0 {
				// the scripted server answers a query with a Pong: the query fails after it was sent
				verifAssert(p.Do(ctx, ch.Query{Body: "SELECT 1"}) != nil, "pool-do-fails-on-this-server")
			} else {
				verifAssert(p.Ping(ctx) == nil, "pool-ping-ok")
			}
			verifSettle()
			_ = before
		case 0: // acquire
			actx, cancel := context.WithCancel(ctx)
			exhausted := held() >= int(maxConns)
			if exhausted {
				cancel() // it could only wait for a release that this history does not contain
			}
			c, err := p.Acquire(actx)
			cancel()
			if exhausted {
				verifAssert(err != nil, "acquire-beyond-maxconns-fails")
				break
			}
			verifAssert(err == nil && c != nil, "acquire-ok")
			if err != nil {
				return
			}
			idx := srv.VerifConnIndex(c.client())
			for _, h := range holds {
				verifAssert(h != idx, "one-holder-per-connection")
			}
			verifAssert(!dead[idx], "dead-connection-not-reissued")
			handles, holds = append(handles, c), append(holds, idx)
		case 1: // release any handle, held or not
			if len(handles) == 0 {
				break
			}
			j := verifIntRange("handle", 0, len(handles)-1)
			handles[j].Release()
			holds[j] = -1
		case 2: // use a held handle
			for j, h := range holds {
				if h >= 0 {
					verifAssert(handles[j].Ping(ctx) == nil, "ping-through-held-handle")
					break
				}
			}
		case 3:
			p.checkIdleConnsHealth()
		case 4: // the client behind a held handle dies; the holder releases it
			for j, h := range holds {
				if h >= 0 {
					_ = handles[j].client().Close()
					handles[j].Release()
					verifSettle()
					verifAssert(srv.Closed(h), "dead-connection-closed")
					dead[h] = true
					holds[j] = -1
					break
				}
			}
		}
		verifAssert(int(p.Stat().AcquiredResources()) == held(), "acquired==model")
		verifAssert(srv.OpenConns() <= int(maxConns), "open<=maxconns")
	}
	for j := range handles {
		handles[j].Release()
	}
	verifAssert(p.Stat().AcquiredResources() == 0, "all-released-at-end")
	p.Close()
	verifAssert(srv.OpenConns() == 0, "closed-after-pool-close")
	verifObserveU64("dials", uint64(srv.Dials()))
}
